"""C13 — global configuration is scoped, all-or-nothing, and captured at construction.

Proof: lean/TeaTasting/Props/C13.lean (model Model/Config.lean over the GENERATED Gen.configImpl,
Gen.autoCheck, Gen.entryTable).  Tie: structure extraction (translator) + correspondence on random
histories: the real module and the model must produce the same configuration / metric snapshots
after every statement.  Search: the property's clauses monitored directly on the real module.
"""
from __future__ import annotations

import math

import common
from common import Check, Driver
from props.c19 import to_wire

PROP = "C13"
STD = {
    "alpha": [0.1, 0.2, 0.01, 7.0, float("nan"), 1, "x", None],
    "power": [0.9, 0.5, 5.0, -0.1, None],
    "confidence_level": [0.9, 0.99, 1.0, 0, None],
    "alternative": ["greater", "less", "two-sided", "bogus", 3],
    "equal_var": [True, False, 1, None],
    "use_t": [True, False, "yes"],
    "ratio": [1, 2, 0.5, 0, float("inf"), -1.0, None],
    "n_obs": [100, (10, 20), [5], 1, [2, 1], "ab", None],
    "n_resamples": [10, 1000, 0, 2.5],
}
USER = {"foo": [1, "bar", 2.5, None, (1, 2)], "my_opt": [0, "z", True], "zeta": [3, None]}
CTOR = ["alpha", "power", "confidence_level", "alternative", "equal_var", "use_t", "ratio", "n_obs"]


def pv(v) -> str:
    if v is None:
        return "N"
    if isinstance(v, bool):
        return f"B{int(v)}"
    if isinstance(v, int):
        return f"I{v}"
    if isinstance(v, float):
        if math.isnan(v):
            return "Fnan"
        if math.isinf(v):
            return "Finf" if v > 0 else "F-inf"
        return "F" + common.rs(v)
    if isinstance(v, str):
        return "S" + v
    if isinstance(v, (list, tuple)):
        return "L[" + ",".join(pv(x) for x in v) + "]"
    return "O" + type(v).__name__


def gen_kvs(rng, names_pool, kmax=3, valid_bias=0.7):
    names = rng.sample(sorted(names_pool), rng.randint(1, min(kmax, len(names_pool))))
    out = []
    for n in names:
        vals = names_pool[n]
        v = vals[0] if rng.random() < valid_bias * 0.5 else rng.choice(vals)
        out.append((n, v))
    return out


def gen_block(rng, depth, length, counter):
    out = []
    pool = {**STD, **USER}
    for _ in range(length):
        r = rng.random()
        if r < 0.28:
            out.append(("set", gen_kvs(rng, pool)))
        elif r < 0.55 and depth > 0:
            out.append(("ctx", gen_kvs(rng, pool), gen_block(rng, depth - 1, rng.randint(0, 3), counter)))
        elif r < 0.62:
            out.append(("raise",))
        elif r < 0.72 and depth > 0:
            out.append(("try", gen_block(rng, depth - 1, rng.randint(1, 3), counter)))
        elif r < 0.9:
            counter[0] += 1
            out.append(("mk", "RatioOfMeans", f"m{counter[0]}", gen_kvs(rng, {k: STD[k] for k in CTOR}, 2)))
        else:
            n = rng.choice(sorted(pool))
            out.append(("mut", n, rng.choice(pool[n])))
    return out


def wire_kvs(kvs):
    return " ".join([str(len(kvs))] + [f"{k} {to_wire(v)}" for k, v in kvs])


def wire_block(b):
    toks = [str(len(b))]
    for st in b:
        if st[0] == "set":
            toks += ["set", wire_kvs(st[1])]
        elif st[0] == "ctx":
            toks += ["ctx", wire_kvs(st[1]), wire_block(st[2])]
        elif st[0] == "raise":
            toks.append("raise")
        elif st[0] == "try":
            toks += ["try", wire_block(st[1])]
        elif st[0] == "mk":
            toks += ["mk", st[1], st[2], wire_kvs(st[3])]
        elif st[0] == "mut":
            toks += ["mut", st[1], to_wire(st[2])]
    return " ".join(toks)


class Boom(Exception):
    pass


class Runner:
    """executes a history on the REAL module, logging snapshots and monitoring the property directly"""

    def __init__(self):
        import tea_tasting as tt
        import tea_tasting.config as cfg
        self.tt, self.cfg = tt, cfg
        self.metrics = []      # (name, object, params at construction)
        self.log = []
        self.violations = []

    def snap(self):
        c = self.tt.get_config()
        cs = ",".join(f"{k}={pv(c[k])}" for k in sorted(c))
        ms = ",".join(n + ":{" + ",".join(f"{p}={pv(getattr(o, p))}" for p in sorted(CTOR)) + "}"
                      for n, o, _ in self.metrics)
        for n, o, at_ctor in self.metrics:
            now = {p: getattr(o, p) for p in CTOR}
            if pv_dict(now) != pv_dict({p: at_ctor[p] for p in CTOR}):
                self.violations.append(f"metric {n}: parameters changed after construction: {at_ctor} -> {now}")
            fp = self.fingerprint(o)
            if fp != at_ctor["__results__"]:
                self.violations.append(f"metric {n}: a later configuration change altered its RESULTS (analysis / power "
                                       f"analysis of fixed aggregates): {at_ctor['__results__']} -> {fp} under {c}")
        self.log.append(cs + "|" + ms)

    def fingerprint(self, m):
        """what the metric computes from FIXED aggregates: must depend on nothing but the object"""
        A = self.tt.aggr.Aggregates
        c = A(400, {"x": 2.0, "y": 4.0}, {"x": 1.5, "y": 2.0}, {("x", "y"): 0.3})
        t = A(380, {"x": 2.2, "y": 4.1}, {"x": 1.7, "y": 1.9}, {("x", "y"): 0.4})
        out = []
        try:
            out.append(tuple(round(float(v), 12) if v == v else "nan" for v in m.analyze({0: c, 1: t}, 0, 1)))
        except Exception as ex:  # noqa: BLE001
            out.append(type(ex).__name__)
        for par in ("rel_effect_size", "power"):
            try:
                out.append(tuple((r.n_obs, round(float(r.power), 10), round(float(r.effect_size), 10))
                                 for r in m.solve_power(c + t, par)))
            except Exception as ex:  # noqa: BLE001
                out.append(type(ex).__name__)
        return tuple(out)

    def block(self, b):
        for st in b:
            try:
                self.stmt(st)
            finally:
                self.snap()

    def stmt(self, st):
        tt = self.tt
        if st[0] == "set":
            before = tt.get_config()
            try:
                tt.set_config(**dict(st[1]))
            except Exception:
                if pv_dict(tt.get_config()) != pv_dict(before):
                    self.violations.append(f"set_config({dict(st[1])}) raised but changed the configuration: "
                                           f"{before} -> {tt.get_config()}")
                raise
        elif st[0] == "ctx":
            before = tt.get_config()
            try:
                with tt.config_context(**dict(st[1])):
                    self.block(st[2])
            finally:
                if pv_dict(tt.get_config()) != pv_dict(before):
                    self.violations.append(f"after leaving config_context({dict(st[1])}) the configuration is "
                                           f"{tt.get_config()}, before it was {before}")
        elif st[0] == "raise":
            raise Boom
        elif st[0] == "try":
            try:
                self.block(st[1])
            except Exception:
                pass
        elif st[0] == "mk":
            kv = dict(st[3])
            before = tt.get_config()
            m = tt.RatioOfMeans("x", "y", **kv)
            for p in CTOR:
                want = kv[p] if kv.get(p) is not None else before[p]
                if pv(getattr(m, p)) != pv(want):
                    self.violations.append(f"metric built with {kv} under {before}: {p} = {getattr(m, p)!r}, "
                                           f"expected {want!r}")
            self.metrics.append((st[2], m, {**{p: getattr(m, p) for p in CTOR}, "__results__": self.fingerprint(m)}))
        elif st[0] == "mut":
            d = tt.get_config()
            before = tt.get_config()
            d[st[1]] = st[2]
            if pv_dict(tt.get_config()) != pv_dict(before):
                self.violations.append(f"mutating the dict returned by get_config() changed the configuration "
                                       f"({st[1]}={st[2]!r})")

    def run(self, prog):
        saved = dict(self.cfg._global_config)
        try:
            for st in prog:
                try:
                    try:
                        self.stmt(st)
                    finally:
                        self.snap()
                except Exception:
                    pass
        finally:
            self.cfg._global_config.clear()
            self.cfg._global_config.update(saved)
        return self.log


def pv_dict(d):
    return {k: pv(v) for k, v in d.items()}


def shrink(prog, still_bad):
    """drop statements while the history still misbehaves"""
    cur = list(prog)
    changed = True
    while changed:
        changed = False
        for i in range(len(cur)):
            cand = cur[:i] + cur[i + 1:]
            if cand and still_bad(cand):
                cur, changed = cand, True
                break
    return cur


def run_histories(chk: Check, n, depth, length, with_model=True):
    rng = chk.rng
    progs = []
    # corpus first: the three histories that broke the unrepaired logic (DESIGN.md section 7, F2)
    progs.append([("set", [("alpha", 0.2), ("power", 7.0)])])
    progs.append([("ctx", [("alpha", 0.1), ("power", 5.0)], [])])
    progs.append([("ctx", [("foo", 1)], [("set", [("my_opt", 3)])])])
    progs.append([("mut", "alpha", 0.5), ("mk", "RatioOfMeans", "m0", [])])
    for _ in range(n):
        progs.append(gen_block(rng, depth, rng.randint(2, length), [0]))
    model_logs = None
    if with_model:
        model_logs = Driver("DriverConfig.lean").ask([f"history {wire_block(p)}" for p in progs])
    for i, prog in enumerate(progs):
        r = Runner()
        real = r.run(prog)
        kinds = sorted({st[0] for st in flatten(prog)})
        chk.case(("history", i, len(list(flatten(prog))), tuple(kinds)))
        for k in kinds:
            chk.branch(f"op:{k}")
        if r.violations:
            def bad(p):
                rr = Runner()
                rr.run(p)
                return bool(rr.violations)
            small = shrink(prog, bad)
            rr = Runner()
            rr.run(small)
            chk.fail(rr.violations[0], dict(history=repr(small), all=rr.violations[:3]))
        if with_model:
            m = model_logs[i].split(";") if model_logs[i] else []
            if m != real:
                def differs(p):
                    a = Driver("DriverConfig.lean").ask([f"history {wire_block(p)}"])[0]
                    return (a.split(";") if a else []) != Runner().run(p)
                first = not chk.cov.get("disagreements")
                small = shrink(prog, differs) if first and len(list(flatten(prog))) <= 10 else prog
                k = next((j for j, (a, b) in enumerate(zip(m, real)) if a != b), min(len(m), len(real)))
                chk.disagree("config history: model and real module snapshots differ",
                             dict(history=repr(small), first_difference_at=k,
                                  model=m[k] if k < len(m) else None, impl=real[k] if k < len(real) else None))
        if i in (4, 5):
            chk.sample(dict(history=repr(prog)[:600], snapshots=len(real)))


def flatten(b):
    for st in b:
        yield st
        if st[0] == "ctx":
            yield from flatten(st[2])
        elif st[0] == "try":
            yield from flatten(st[1])


def every_constructor(chk: Check) -> None:
    """Each metric class, built with nothing but its required arguments under a configuration in which EVERY standard
    option differs from the stock default, must carry the configured value in each attribute named like an option —
    for the subclasses and wrappers too (`Mean` forwards to `RatioOfMeans`, `Quantile` to `Bootstrap`): a default
    written into a wrapper's signature would silently shadow the configuration."""
    import numpy as np
    import tea_tasting as tt
    configs = [
        dict(alpha=0.1, alternative="less", confidence_level=0.8, equal_var=True, n_obs=(120, 240), n_resamples=321,
             power=0.7, ratio=2, use_t=False),
        dict(alpha=0.01, alternative="greater", confidence_level=0.99, equal_var=True, n_obs=77, n_resamples=250,
             power=0.9, ratio=0.5, use_t=False),
    ]
    # the parameters each class DOCUMENTS as "defaults to the global config value" (SampleRatio's `ratio` is not one of
    # them: its documented default is the constant 1)
    mean_opts = ("alternative", "confidence_level", "equal_var", "use_t", "alpha", "ratio", "power", "n_obs")
    boot_opts = ("alternative", "confidence_level", "n_resamples")
    makers = {
        "Mean('x')": (lambda: tt.Mean("x"), mean_opts),
        "Mean('x', 'c')": (lambda: tt.Mean("x", "c"), mean_opts),
        "RatioOfMeans('x', 'y')": (lambda: tt.RatioOfMeans("x", "y"), mean_opts),
        "Bootstrap('x', np.mean)": (lambda: tt.Bootstrap("x", np.mean), boot_opts),
        "Quantile('x', 0.5)": (lambda: tt.Quantile("x", 0.5), boot_opts),
    }
    for conf in configs:
        for name, (mk, opts) in makers.items():
            chk.case(("ctor-under-config", name, conf["alpha"]))
            with tt.config_context(**conf):
                obj = mk()
            for opt in opts:
                want = conf[opt]
                if pv(getattr(obj, opt)) != pv(want):
                    chk.fail(f"{name} built under a configuration with {opt}={want!r} has {opt}={getattr(obj, opt)!r}: "
                             "an unspecified parameter is not taken from the configuration in force",
                             dict(constructor=name, config={k: repr(v) for k, v in conf.items()}, option=opt,
                                  got=repr(getattr(obj, opt)), expected=repr(want)))


def special_histories(chk: Check):
    """histories the random programs reach only by luck, run on the real module with the property monitored directly:
    contexts that request exactly the values already in force (or nothing at all) around a body that changes the
    configuration, and options whose values are mutable / stateful objects (identity must survive a context)"""
    import numpy as np
    import tea_tasting as tt
    import tea_tasting.config as cfg
    saved = dict(cfg._global_config)

    def snapshot():
        return {k: (pv(v), id(v)) for k, v in tt.get_config().items()}

    def run(label, enter_kw, body):
        before = snapshot()
        try:
            with tt.config_context(**enter_kw()):
                body()
        except Boom:
            pass
        except Exception as ex:  # noqa: BLE001
            chk.fail("config_context raised on a valid history", dict(history=label, error=repr(ex)))
        after = snapshot()
        chk.case(("special-history", label))
        chk.branch("special:" + label.split(":")[0])
        if {k: v[0] for k, v in after.items()} != {k: v[0] for k, v in before.items()}:
            chk.fail("after leaving config_context the configuration is not what it was before",
                     dict(history=label, before={k: v[0] for k, v in before.items()},
                          after={k: v[0] for k, v in after.items()}))
        elif any(after[k][1] != before[k][1] for k in before if not before[k][0].startswith(("F", "I", "B", "S", "N"))):
            chk.fail("after leaving config_context an option no longer holds the OBJECT it held before (a copy was "
                     "installed): for a stateful value - a random generator, a list that is extended later - the "
                     "configuration is not what it was", dict(history=label, options=[k for k in before if after[k][1] != before[k][1]]))

    def change():
        tt.set_config(equal_var=True, alpha=0.2, my_option="changed")

    def change_and_raise():
        change()
        raise Boom
    try:
        for body_name, body in (("set_config in the body", change), ("set_config then raise", change_and_raise)):
            run(f"same-values:{body_name}", lambda: {"alpha": tt.get_config("alpha")}, body)
            run(f"empty-context:{body_name}", dict, body)
            run(f"same-values-all:{body_name}", lambda: {k: tt.get_config(k) for k in ("alpha", "power", "use_t")}, body)

            def nested():
                with tt.config_context(confidence_level=0.9):      # the same value as the enclosing context
                    body()
            run(f"nested-same-value:{body_name}", lambda: {"confidence_level": 0.9}, nested)
        # every option passed EXPLICITLY (all different from the configuration in force) reaches the attribute of its own
        # name, for the base class and for the wrapper class alike
        explicit = dict(alternative="less", confidence_level=0.77, equal_var=True, use_t=False, alpha=0.03, ratio=2.5,
                        power=0.66, effect_size=None, rel_effect_size=0.07, n_obs=(300, 400))
        chk.case(("special-history", "explicit-options"))
        chk.branch("special:explicit-options")
        for label, m_ in (("Mean", tt.Mean("x", "c", **explicit)), ("RatioOfMeans", tt.RatioOfMeans("x", "y", "c", "d", **explicit))):
            bad = {k: getattr(m_, k) for k, v in explicit.items() if getattr(m_, k) != v}
            if bad:
                chk.fail(f"{label}: an explicit argument did not win (attribute differs from the value passed)",
                         dict(passed={k: explicit[k] for k in bad}, attributes=bad))
        # config_context used as a DECORATOR (contextlib's context managers are decorators too), on a function that calls
        # itself and on one that raises: every call enters a fresh context, the outermost exit restores
        before = snapshot()

        @tt.config_context(alpha=0.11, my_option="inside")
        def rec(depth):
            if tt.get_config("alpha") != 0.11:
                raise AssertionError("not in force")
            if depth == 2:
                tt.set_config(equal_var=True)
            if depth == 0:
                raise Boom
            if depth > 0:
                try:
                    rec(depth - 1)
                except Boom:
                    pass
        chk.case(("special-history", "decorator"))
        chk.branch("special:decorator")
        try:
            rec(3)
            rec(1)
        except AssertionError:
            chk.fail("inside a function decorated with config_context the requested option is not in force", dict(history="decorator"))
        except Exception as ex:  # noqa: BLE001
            chk.fail("a function decorated with config_context raised", dict(history="decorator", error=repr(ex)))
        after = snapshot()
        if {k: v[0] for k, v in after.items()} != {k: v[0] for k, v in before.items()}:
            chk.fail("after leaving config_context the configuration is not what it was before",
                     dict(history="decorator: a decorated function that calls itself, changes the configuration and raises",
                          before={k: v[0] for k, v in before.items()}, after={k: v[0] for k, v in after.items()}))
        # mutable / stateful option values
        rng_obj, lst, dct = np.random.default_rng(5), [1, 2], {"a": 1}
        tt.set_config(my_rng=rng_obj, my_list=lst, my_dict=dct, n_obs=(100, 200))
        run("objects:plain context", lambda: {"alpha": 0.1}, lambda: None)
        run("objects:body changes another option", lambda: {"alpha": 0.1}, change)
        run("objects:context sets an object option", lambda: {"my_list": [9]}, lambda: None)
        if tt.get_config("my_rng") is not rng_obj or tt.get_config("my_list") is not lst:
            chk.fail("an option no longer holds the object it was given (after contexts were entered and left)",
                     dict(option="my_rng / my_list"))
        got = tt.get_config()
        got["alpha"] = 0.77
        if tt.get_config("alpha") == 0.77:
            chk.fail("get_config() hands out the live configuration, not a copy", {})
    finally:
        cfg._global_config.clear()
        cfg._global_config.update(saved)


def main():
    chk = Check(PROP)
    chk.trusted = common.BASE_TRUST + [
        "hand-written: Model/Config.lean (state-that-survives-exceptions monad, set/context/restore/resolve); the three "
        "structural choices (validate-then-write, enter inside try, clear+update) and get_config copying are EXTRACTED "
        "from config.py by the translator, the validation is the generated auto_check",
        "metric construction is modelled for the parameters listed in the generated entry table (RatioOfMeans/Mean)",
        "contextlib.contextmanager semantics (finally runs on both exits) is assumed",
    ]
    chk.assumptions = ["single-threaded histories (the module-level dict is not thread-safe; out of the property's scope)"]
    proved = chk.prove(extra_targets=["TeaTasting.Model.Config", "TeaTasting.Driver.PyWire"])
    with common.Lock():
        ok, _ = common.lake_build(["TeaTasting.Model.Config", "TeaTasting.Driver.PyWire"])
        if not ok:
            chk.notes.append("regenerated Gen does not type-check; correspondence uses the snapshot model")
            common.use_snapshot()
            common.lake_build(["TeaTasting.Model.Config", "TeaTasting.Driver.PyWire"])
    every_constructor(chk)
    special_histories(chk)
    if chk.tier == "quick":
        run_histories(chk, 120, 3, 8)
    else:
        run_histories(chk, 1500, 4, 25)
    chk.cov["rule"] = ("random programs over {set_config, with config_context, raise, try/except, construct metric, "
                       "mutate get_config() copy}, nesting depth <= 4, valid and invalid values, standard and "
                       "user-defined options; non-trivial = distinct (length, operation kinds) history")
    chk.cov["proved"] = proved

    def extended():
        run_histories(chk, 1500, 4, 12, with_model=False)

    chk.finish(extended_search=extended)


def replay(path):
    print(open(path).read()[:4000])
    main()
