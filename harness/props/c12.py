"""C12 — an experiment is the sum of its metrics over the documented variant pairs.

Proof: lean/TeaTasting/Props/C12.lean (pair construction, merge ⊇ declared, analysis_frame over the
GENERATED analysis).  Tie: correspondence of Model/Experiment.lean with the real Experiment (pairs /
raise, declared and merged statistics) on random definitions.  Search: each entry vs the metric analysed
alone on the same data and pair; custom metrics receive what they declared; order preserved.
"""
from __future__ import annotations

import math

import common
import reuse
from common import Check, Driver

PROP = "C12"


def approx(a, b, rel=1e-10):
    if isinstance(a, (int, str, bool)) or a is None:
        return a == b
    a, b = float(a), float(b)
    if math.isnan(a) or math.isnan(b):
        return math.isnan(a) and math.isnan(b)
    if math.isinf(a) or math.isinf(b):
        return a == b
    return abs(a - b) <= rel * max(abs(a), abs(b)) + 1e-300


def cols_key(ac):
    return (f"count={'true' if ac.has_count else 'false'}|mean={','.join(sorted(set(ac.mean_cols)))}|"
            f"var={','.join(sorted(set(ac.var_cols)))}|cov="
            + ",".join(sorted({'~'.join(sorted(p)) for p in ac.cov_cols})))


def make_classes():
    import pyarrow as pa
    import tea_tasting as tt
    from tea_tasting.metrics.base import AggrCols, MetricBase, MetricBaseAggregated, MetricBaseGranular

    class Recorder(MetricBase):
        """plain metric: records the (control, treatment) it is asked to compare"""
        def __init__(self, log):
            self.log = log

        def analyze(self, data, control, treatment, variant):
            self.log.append((control, treatment))
            return {"pair": (control, treatment)}

    class CustomAggr(MetricBaseAggregated):
        """aggregated metric declaring mean/var/cov of its columns; records what it receives"""
        def __init__(self, cols_, log, extra_cov=()):
            self.cols_ = tuple(cols_)
            self.log = log
            self.extra_cov = tuple(extra_cov)     # a covariance / variance declared WITHOUT the means of its columns

        @property
        def aggr_cols(self):
            return AggrCols(has_count=True, mean_cols=self.cols_, var_cols=self.cols_[:1] + self.extra_cov[:1],
                            cov_cols=tuple((a, b) for a in self.cols_ for b in self.cols_ if a > b)
                            + ((self.extra_cov,) if len(self.extra_cov) == 2 else ()))

        def analyze_aggregates(self, control, treatment):
            self.log.append((control, treatment))
            return {"diff": treatment.mean(self.cols_[0]) - control.mean(self.cols_[0]),
                    "n": control.count() + treatment.count()}

    class CustomGran(MetricBaseGranular):
        def __init__(self, cols_, log):
            self.cols_ = tuple(cols_)
            self.log = log

        @property
        def cols(self):
            return self.cols_

        def analyze_granular(self, control, treatment):
            self.log.append((control, treatment))
            return {"rows": control.num_rows + treatment.num_rows,
                    "sum": sum(float(sum(treatment[c].to_pylist())) for c in self.cols_)}

    from tea_tasting.metrics.base import MetricPowerResults, PowerBaseAggregated

    class PowerOnly(MetricBase, PowerBaseAggregated):
        """plain metric for analyze(); power analysis from the aggregates it declares (mean, var and cov of 2 columns)"""
        def __init__(self, cols_):
            self.cols_ = tuple(cols_)

        @property
        def aggr_cols(self):
            a, b = self.cols_
            return AggrCols(has_count=True, mean_cols=(a, b), var_cols=(b,), cov_cols=((a, b),))

        def analyze(self, data, control, treatment, variant):
            return {"plain": 1}

        def solve_power_from_aggregates(self, data, parameter="rel_effect_size"):
            a, b = self.cols_
            return MetricPowerResults([{"n": data.count(), "m": data.mean(a) + data.mean(b), "v": data.var(b),
                                        "c": data.cov(a, b)}])

    from tea_tasting.metrics.base import PowerBase

    class PowerPlain(MetricBase, PowerBase):
        """power analysis that reads the data itself; its answer depends on the requested parameter"""
        def analyze(self, data, control, treatment, variant):
            return {"plain": 1}

        def solve_power(self, data, parameter="rel_effect_size"):
            return MetricPowerResults([{"parameter": parameter, "rows": data.num_rows}])

    make_classes.PowerPlain = PowerPlain
    return Recorder, CustomAggr, CustomGran, PowerOnly


def pairs_correspondence(chk: Check, n):
    import pyarrow as pa
    import tea_tasting as tt
    Recorder, _, _, _ = make_classes()
    rng = chk.rng
    jobs = []
    for i in range(n):
        kind = rng.choice(["int", "str", "bool"])
        k = rng.randint(1, 5) if kind != "bool" else rng.randint(1, 2)
        pool = {"int": [0, 1, 2, 3, 5, 7, 10, 11, -1], "str": ["a", "b", "B", "c10", "c9", "zz", "ctl"],
                "bool": [False, True]}[kind]
        ids = rng.sample(pool, k)
        r = rng.random()
        control = None if r < 0.35 else (rng.choice(ids) if r < 0.85 else {"int": 99, "str": "nope", "bool": None}[kind])
        allv = rng.random() < 0.5
        jobs.append((kind, ids, control, allv))
    lines, ranks = [], []
    for kind, ids, control, allv in jobs:
        universe = sorted(set(ids) | ({control} if control is not None else set()))
        rank = {v: j for j, v in enumerate(universe)}
        ranks.append((rank, universe))
        vs = sorted(rank[v] for v in ids)
        lines.append(f"pairs {len(vs)} {' '.join(map(str, vs))} {'-' if control is None else rank[control]} {int(allv)}")
    out = Driver("DriverExperiment.lean").ask(lines)
    for (kind, ids, control, allv), (rank, universe), mo in zip(jobs, ranks, out):
        log = []
        rows = [v for v in ids for _ in range(3)]
        data = pa.table({"variant": rows, "x": [float(j) for j in range(len(rows))]})
        exp = tt.Experiment(rec=Recorder(log))
        inp = dict(variants=repr(ids), control=repr(control), all_variants=allv)
        chk.case(("pairs", kind, len(ids), control is None, control in ids if control is not None else None, allv))
        chk.branch(f"ids:{kind}")
        chk.branch("control:" + ("none" if control is None else "present" if control in ids else "absent"))
        try:
            res = exp.analyze(data, control, all_variants=allv)
            if allv:
                real = "all " + ";".join(f"{rank[c]},{rank[t]}" for c, t in res.keys())
                keys_ok = list(res.keys()) == log
            else:
                real = "one " + ";".join(f"{rank[c]},{rank[t]}" for c, t in log)
                keys_ok = True
        except ValueError:
            real, keys_ok = "raise", True
        except Exception as ex:  # noqa: BLE001
            real, keys_ok = f"other:{type(ex).__name__}", True
        model = mo if mo != "all " else "all "
        if real.strip() != model.strip():
            # classify against the documented rule directly
            chk.fail("variant pairs differ from the documented ones (control vs every other variant / all pairs with "
                     "the smaller id as control; raise unless exactly one pair when all_variants=False)",
                     dict(input=inp, observed=real, expected=model))
        if not keys_ok:
            chk.fail("result keys are not the analysed pairs in order", dict(input=inp))


def standalone(chk: Check, n):
    import numpy as np
    import pyarrow as pa
    import tea_tasting as tt
    import tea_tasting.metrics as tm
    _, CustomAggr, CustomGran, PowerOnly = make_classes()
    rng = chk.rng
    nprng = np.random.default_rng(chk.seed + 12)
    colnames = ["a", "b", "c", "d", "e"]
    for i in range(n):
        nv = rng.randint(2, 4)
        ids = rng.sample([0, 1, 2, 3, 5], nv) if i % 3 else rng.sample(["x", "y", "z", "w"], nv)
        nrows = rng.randint(4 * nv, 60)
        variant = [ids[j % nv] for j in range(nrows)]
        rng.shuffle(variant)
        colvals = {c: nprng.normal(3, 1, nrows) + (1 if c in "bd" else 0) for c in colnames}
        if nv >= 3 and i % 4 == 3:
            # a hold-out variant on a vastly different scale: the entries of the OTHER pairs must not feel it
            far = np.array([v == ids[-1] for v in variant])
            colvals = {c: np.where(far, x * 1e10, x) for c, x in colvals.items()}
        data = pa.table({"variant": variant, **colvals, "unused": ["q"] * nrows})
        logs = {}
        metrics = {}
        k = rng.randint(1, 6) if i % 3 == 2 else rng.randint(2, 6)
        for j in range(k):
            kind = rng.choice(["mean", "mean_cov", "ratio", "ratio_cov", "sr", "caggr", "cgran", "quantile"])
            if i % 3 == 0 and j < 2:
                kind = ("ratio", "caggr")[j]      # a pooling metric next to a user-defined one (regression: 412228c)
            if i % 3 == 1 and j < 2:
                kind = ("cgran", "quantile")[j]   # two row-level metrics (their columns differ: cs is resampled)
            cs = rng.sample(colnames, 4)
            name = f"m{j}_{kind}"
            if kind == "mean":
                metrics[name] = tt.Mean(cs[0])
            elif kind == "mean_cov":
                metrics[name] = tt.Mean(cs[0], cs[1])
            elif kind == "ratio":
                metrics[name] = tt.RatioOfMeans(cs[0], cs[1])
            elif kind == "ratio_cov":
                metrics[name] = tt.RatioOfMeans(cs[0], cs[1], cs[2], cs[3])
            elif kind == "sr":
                metrics[name] = tt.SampleRatio()
            elif kind == "caggr":
                logs[name] = []
                metrics[name] = CustomAggr(cs[:rng.randint(1, 3)], logs[name],
                                           extra_cov=(cs[3], cs[2]) if (rng.random() < 0.5 or i % 3 == 0) else ())
            elif kind == "cgran":
                logs[name] = []
                metrics[name] = CustomGran(cs[:rng.randint(1, 2)], logs[name])
            else:
                metrics[name] = tt.Quantile(cs[0], q=0.5, n_resamples=50, random_state=7)
        exp = tt.Experiment(metrics)
        control = None if i % 2 else sorted(ids)[rng.randrange(nv)]
        inp = dict(ids=repr(ids), control=repr(control), metrics={k_: repr(v)[:80] for k_, v in metrics.items()},
                   rows=nrows, seed=chk.seed, case=i)
        chk.case(("standalone", i, k, nv))
        for name in metrics:
            chk.branch("metric:" + name.split("_", 1)[1])
        # declared / merged statistics (captured from the real _read_data)
        captured = {}
        orig = tm.aggregate_by_variants

        def spy(d, aggr_cols, variant=None):
            if not isinstance(d, dict):
                captured["merged"] = aggr_cols
            return orig(d, aggr_cols=aggr_cols, variant=variant)
        tm.aggregate_by_variants = spy
        try:
            res = exp.analyze(data, control, all_variants=True)
        except Exception as ex:  # noqa: BLE001
            chk.fail("Experiment.analyze raised on a valid definition", dict(input=inp, error=repr(ex)))
            continue
        finally:
            tm.aggregate_by_variants = orig
        merged = captured.get("merged")
        for name, m in metrics.items():
            if isinstance(m, tm.MetricBaseAggregated) and merged is not None:
                ac = m.aggr_cols
                miss = ([c for c in ac.mean_cols if c not in merged.mean_cols]
                        + [c for c in ac.var_cols if c not in merged.var_cols]
                        + [p for p in ac.cov_cols if tuple(sorted(p)) not in {tuple(sorted(q)) for q in merged.cov_cols}])
                if miss or (ac.has_count and not merged.has_count):
                    chk.fail("the merged request misses statistics a metric declared",
                             dict(input=inp, metric=name, missing=repr(miss)))
        if not all(isinstance(k, tuple) and len(k) == 2 for k in res.keys()) or \
                not isinstance(res, tt.experiment.ExperimentResults):
            chk.fail("Experiment.analyze(all_variants=True) does not return the results keyed by (control, treatment) pair",
                     dict(input=inp, type=type(res).__name__, keys=[repr(k) for k in res.keys()][:6]))
            continue
        for (c, t), er in res.items():
            if list(er.keys()) != list(metrics.keys()):
                chk.fail("metric order is not preserved", dict(input=inp, got=list(er.keys())))
            for name, m in metrics.items():
                alone = m.analyze(data, c, t, "variant")
                got = er[name]
                a = alone if isinstance(alone, dict) else alone._asdict()
                g = got if isinstance(got, dict) else got._asdict()
                bad = [f for f in a if not approx(a[f], g.get(f))]
                if bad:
                    chk.fail("an experiment entry differs from the metric analysed alone on the same data and pair",
                             dict(input=inp, metric=name, pair=repr((c, t)), field=bad[0],
                                  alone=repr(a[bad[0]]), in_experiment=repr(g.get(bad[0]))))
        # "a result never depends on which other variants are present": the same built-in metrics on the rows of the
        # pair alone
        builtin = {k_: v for k_, v in metrics.items() if type(v) in (tt.Mean, tt.RatioOfMeans, tt.SampleRatio, tt.Quantile)}
        if builtin and nv >= 3:
            import pyarrow.compute as pc
            for (c, t), er in res.items():
                only = data.filter(pc.is_in(data["variant"], value_set=pa.array([c, t])))
                try:
                    alone2 = tt.Experiment(builtin).analyze(only, c)
                except Exception as ex:  # noqa: BLE001
                    chk.fail("Experiment.analyze raised on the rows of one pair", dict(input=inp, pair=repr((c, t)), error=repr(ex)))
                    break
                bad = None
                for name in builtin:
                    a = alone2[name] if isinstance(alone2[name], dict) else alone2[name]._asdict()
                    g = er[name] if isinstance(er[name], dict) else er[name]._asdict()
                    for f in a:
                        if not approx(a[f], g.get(f), 1e-7):
                            bad = (name, f, a[f], g.get(f))
                            break
                    if bad:
                        break
                if bad:
                    chk.fail("an entry depends on which OTHER variants are present: the pair analysed on its own rows gives "
                             "a different result", dict(input=inp, pair=repr((c, t)), metric=bad[0], field=bad[1],
                                                        pair_only=repr(bad[2]), with_other_variants=repr(bad[3])))
                    break
        # custom metrics received what they declared, with the values of the pair
        for name, log in logs.items():
            m = metrics[name]
            if isinstance(m, CustomAggr):
                direct = tt.aggr.read_aggregates(data, "variant", **m.aggr_cols._asdict())
                for cagg, tagg in log[:len(res)]:
                    for agg in (cagg, tagg):
                        try:
                            vid = next(v for v, d in direct.items() if d.count() == agg.count()
                                       and approx(d.mean(m.cols_[0]), agg.mean(m.cols_[0])))
                            d = direct[vid]
                            ok = all(approx(d.mean(c_), agg.mean(c_)) for c_ in m.cols_) \
                                and approx(d.var(m.cols_[0]), agg.var(m.cols_[0])) \
                                and all(approx(d.cov(*p), agg.cov(*p)) for p in m.aggr_cols.cov_cols)
                        except (KeyError, StopIteration):
                            ok = False
                        if not ok:
                            chk.fail("a user-defined aggregated metric did not receive the statistics it declared",
                                     dict(input=inp, metric=name))
        # solve_power: experiment vs each metric alone
        pm = {k_: v for k_, v in metrics.items() if isinstance(v, tt.Mean | tt.RatioOfMeans)}
        if pm or i % 2:
            pm2 = {}
            if i % 2:
                # a user-defined metric whose POWER analysis works from aggregates although it is not an aggregated
                # metric for analyze(): it must receive the statistics it declared, whatever else is in the experiment
                pm2["zz_power_only"] = PowerOnly(rng.sample(colnames, 2))
                pm2["zz_power_plain"] = make_classes.PowerPlain()
            for k_, v in pm.items():
                cls = type(v)
                args = (v.value, v.covariate) if isinstance(v, tt.Mean) else (v.numer, v.denom, v.numer_covariate,
                                                                              v.denom_covariate)
                pm2[k_] = cls(*args, rel_effect_size=0.1, n_obs=(500, 2000))
            pe = tt.Experiment(pm2)
            try:
                pr = pe.solve_power(data, "power")
                for k_, v in pm2.items():
                    alone = v.solve_power(data, "power")
                    if isinstance(v, make_classes.PowerPlain):
                        if list(pr[k_]) != list(alone):
                            chk.fail("Experiment.solve_power entry of a user-defined (non-aggregated) power metric differs "
                                     "from its own solve_power for the same parameter",
                                     dict(input=inp, metric=k_, alone=repr(list(alone)), in_experiment=repr(list(pr[k_]))))
                        continue
                    if isinstance(v, PowerOnly):
                        if not all(approx(x, y) for x, y in zip(pr[k_][0].values(), alone[0].values())):
                            chk.fail("Experiment.solve_power entry of a user-defined power metric differs from its own "
                                     "solve_power", dict(input=inp, metric=k_, alone=repr(alone), in_experiment=repr(pr[k_])))
                        continue
                    for r1, r2 in zip(pr[k_], alone):
                        if any(not approx(x, y) for x, y in zip(r1, r2)):
                            chk.fail("Experiment.solve_power entry differs from the metric's own solve_power",
                                     dict(input=inp, metric=k_, alone=repr(r2), in_experiment=repr(r1)))
                if list(pr.keys()) != list(pm2.keys()):
                    chk.fail("solve_power: metric order is not preserved", dict(input=inp))
            except Exception as ex:  # noqa: BLE001
                chk.fail("Experiment.solve_power raised", dict(input=inp, error=repr(ex)))
        if i < 2:
            chk.sample(dict(ids=repr(ids), control=repr(control), metrics=list(metrics), pairs=[repr(p) for p in res]))


def declared_correspondence(chk: Check, n):
    import tea_tasting as tt
    rng = chk.rng
    names = ["x", "z", "cx", "cz", "a10", "a9"]
    jobs = []
    for _ in range(n):
        roles = [rng.choice(names)] + [rng.choice([None] + names) for _ in range(3)]
        if len({r for r in roles if r}) != len([r for r in roles if r]):
            continue
        jobs.append(roles)
    out = Driver("DriverExperiment.lean").ask(
        ["ratiocols " + " ".join("-" if r is None else r for r in roles) for roles in jobs])
    for roles, mo in zip(jobs, out):
        real = cols_key(tt.RatioOfMeans(*roles).aggr_cols)
        chk.case(("declared", tuple(roles)))
        chk.branch("declared-cols")
        if real != mo:
            chk.disagree("RatioOfMeans.aggr_cols vs model ratioAggrCols", dict(roles=roles, impl=real, model=mo))


def shared_definition(chk: Check):
    """Experiment(metrics_dict, **more): the caller's dict stays the caller's — a second experiment built from the SAME
    dict with other keyword metrics has its own metrics, and the dict itself is unchanged"""
    import numpy as np
    import pyarrow as pa
    import tea_tasting as tt
    nprng = np.random.default_rng(chk.seed + 121)
    n = 60
    data = pa.table({"variant": [j % 2 for j in range(n)], "a": nprng.normal(3, 1, n), "b": nprng.normal(4, 1, n),
                     "c": nprng.normal(5, 1, n)})
    base = {"m_a": tt.Mean("a", rel_effect_size=0.1)}
    chk.case(("shared-definition",))
    chk.branch("shared-metrics-dict")
    try:
        e1 = tt.Experiment(base, m_b=tt.Mean("b", rel_effect_size=0.1))
        e2 = tt.Experiment(base, m_c=tt.Mean("c", rel_effect_size=0.1))
        r1, r2 = e1.analyze(data), e2.analyze(data)
        p1, p2 = e1.solve_power(data, "power"), e2.solve_power(data, "power")
    except Exception as ex:  # noqa: BLE001
        chk.fail("Experiment built from a dict plus keyword metrics raised", dict(error=repr(ex)))
        return
    got = dict(base=list(base), e1=list(r1.keys()), e2=list(r2.keys()), p1=list(p1.keys()), p2=list(p2.keys()))
    want = dict(base=["m_a"], e1=["m_a", "m_b"], e2=["m_a", "m_c"], p1=["m_a", "m_b"], p2=["m_a", "m_c"])
    if got != want:
        chk.fail("two experiments built from the same metrics dict (plus different keyword metrics) do not each analyse "
                 "their own metrics / the caller's dict was modified", dict(got=got, expected=want))


def main():
    chk = Check(PROP)
    chk.trusted = common.BASE_TRUST + [
        "hand-written: Model/Experiment.lean (pair comprehensions over the sorted variants, AggrCols.__or__ as "
        "de-duplicated lists, RatioOfMeans.aggr_cols) — tied by correspondence; Python's sorted() on the variant ids",
        "analysis_frame is about the generated Mean/RatioOfMeans analysis; for SampleRatio, Quantile/Bootstrap and "
        "user-defined metrics the in-experiment = stand-alone clause is checked on the real code, not proved",
        "that the back end returns the same value for a statistic whatever else is requested alongside (C01/C02)",
    ]
    chk.assumptions = ["variant ids mutually comparable (ints, strs or bools); role columns pairwise distinct (F5)"]
    proved = chk.prove(extra_targets=["TeaTasting.Model.Experiment"])
    with common.Lock():
        common.lake_build(["TeaTasting.Model.Experiment", "TeaTasting.Driver.Proto"])
    q = chk.tier == "quick"
    pairs_correspondence(chk, 120 if q else 1500)
    declared_correspondence(chk, 60 if q else 400)
    standalone(chk, 14 if q else 150)
    shared_definition(chk)
    from props.c15 import same_columns_two_orders
    same_columns_two_orders(chk)
    reuse.analyze_after_mutation(chk, 4 if q else 24, "an entry differs from the metric analysed alone on the same data")
    chk.cov["rule"] = ("pairs: 1..5 variant ids (int/str/bool) x control present/absent/None x all_variants; "
                       "definitions: 1..6 metrics from {Mean, Mean+cov, ratio, ratio+cov, SampleRatio, Quantile, custom "
                       "aggregated, custom row-level} with overlapping columns, 2..4 variants, analysed in the experiment "
                       "and alone")
    chk.cov["proved"] = proved

    def extended():
        pairs_correspondence(chk, 600)
        standalone(chk, 60)

    chk.finish(extended_search=extended)


def replay(path):
    print(open(path).read()[:4000])
    main()
