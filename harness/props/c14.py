"""C14 — Aggregates pooling and delta-method formulas are exact algebraic identities.

Proof: lean/TeaTasting/Props/C14.lean over the GENERATED Gen/Aggr.lean.
Tie: translator + exact correspondence (real `Aggregates` on Fractions vs Gen at Q).
Search: real code vs Spec (sample statistics of the concatenation / of the linearised ratios).
Float clause: real code on floats vs the exact value, conditioning-scaled tolerance (checked, not proved).
"""
from __future__ import annotations

import json
import math
from fractions import Fraction as F

import common
from common import Check, Driver, aggr_wire, opt, parse_num, rand_frac, rs, table_wire

PROP = "C14"


def real_call(fn):
    try:
        return ("ok", fn())
    except Exception as ex:  # noqa: BLE001
        return ("raise", type(ex).__name__)


def gen_table(rng, ncols, nrows, kind):
    rows = []
    off = [rand_frac(rng, -1000, 1000) if kind == "offset" else
           F(rng.choice([10**7, -10**8, 2**30, 10**9])) if kind == "bigoffset" else 0 for _ in range(ncols)]
    for _ in range(nrows):
        if kind == "int":
            rows.append([F(rng.randint(-9, 9)) for _ in range(ncols)])
        else:
            rows.append([off[j] + rand_frac(rng, -6, 6) for j in range(ncols)])
    if kind == "ties":
        rows = [rows[rng.randrange(max(1, nrows // 2))] for _ in range(nrows)]
    return rows


def spec_aggr_lines(names, t):
    return f"aggrof {len(names)} {' '.join(names)} {table_wire(t)}"


def parse_aggr(names, line):
    toks = line.split()
    if toks and toks[0] == "err":
        raise common.DriverError(line)
    vals = [parse_num(t) for t in toks]
    k = len(names)
    count, mean, var = vals[0], dict(zip(names, vals[1:1 + k])), dict(zip(names, vals[1 + k:1 + 2 * k]))
    cov, i = {}, 1 + 2 * k
    for a_i, a in enumerate(names):
        for b in names[a_i:]:
            cov[(a, b)] = vals[i]
            i += 1
    return count, mean, var, cov


def mk_real(count, mean, var, cov, conv=lambda x: x):
    import tea_tasting.aggr as ta
    return ta.Aggregates(count_=int(count), mean_={k: conv(v) for k, v in mean.items()},
                         var_={k: conv(v) for k, v in var.items()},
                         cov_={k: conv(v) for k, v in cov.items()})


def flat(names, a):
    out = [("count", a.count_)]
    out += [(f"mean {n}", a.mean_[n]) for n in names]
    out += [(f"var {n}", a.var_[n]) for n in names]
    for i, x in enumerate(names):
        for y in names[i:]:
            out.append((f"cov {x},{y}", a.cov_[(x, y)]))
    return out


def build_cases(chk: Check, n_cases: int, max_rows: int):
    rng = chk.rng
    cases = []
    kinds = ["frac", "int", "offset", "ties", "bigoffset"]
    for i in range(n_cases):
        k = rng.randint(1, 4)
        names = [f"c{j}" for j in range(k)]
        n1, n2, n3 = (rng.randint(2, max_rows) for _ in range(3))
        if i % 7 == 0:
            n1, n2 = 2, rng.randint(2, 3)     # the smallest sizes the property quantifies over
        if i % 11 == 0:
            n1, n2 = rng.randint(2, 4), max_rows  # unbalanced
        kind = kinds[i % len(kinds)]
        t1, t2, t3 = (gen_table(rng, k, n, kind) for n in (n1, n2, n3))
        roles = [rng.choice([None, *names]) if rng.random() < 0.35 else rng.choice(names) for _ in range(4)]
        if roles[0] is None and roles[2] is None and rng.random() < 0.7:
            roles[0] = names[0]
        if i % 6 == 5:
            # a real denominator column whose pooled sample mean is EXACTLY one (not the absent denominator `None`,
            # whose mean is one by convention): the delta-method terms of the denominator must still be there
            for r in {roles[1], roles[3]} - {None}:
                j = names.index(r)
                tot = sum(row[j] for row in t1 + t2)
                if tot != 0:
                    m = tot / (len(t1) + len(t2))
                    for row in t1 + t2:
                        row[j] = row[j] / m
            kind = kind + "+denom-mean-1"
        cases.append(dict(names=names, t1=t1, t2=t2, t3=t3, roles=roles, kind=kind))
    return cases


def run_exact(chk: Check, cases, with_gen: bool):
    spec = Driver("DriverSpec.lean")
    lines = []
    for c in cases:
        nm = c["names"]
        t12 = c["t1"] + c["t2"]
        lines += [spec_aggr_lines(nm, c["t1"]), spec_aggr_lines(nm, c["t2"]), spec_aggr_lines(nm, c["t3"]),
                  spec_aggr_lines(nm, t12),
                  f"lin_cov {table_wire(t12)} " + " ".join(opt(r) for r in c["roles"]),
                  f"lin_cov {table_wire(t12)} " + " ".join(opt(r) for r in (c["roles"][0], c["roles"][1]) * 2)]
    out = spec.ask(lines)
    gen_lines = []
    results = []
    for i, c in enumerate(cases):
        nm = c["names"]
        o = out[6 * i:6 * i + 6]
        a1, a2, a3, a12 = (parse_aggr(nm, x) for x in o[:4])
        # denominators with zero mean are outside the quantifier of the ratio clauses
        denoms_ok = all(r is None or a12[1][r] != 0 for r in (c["roles"][1], c["roles"][3]))
        lc = parse_num(o[4]) if denoms_ok else None
        lv = parse_num(o[5]) if denoms_ok else None
        results.append(dict(a1=a1, a2=a2, a3=a3, a12=a12, lin_cov=lc, lin_var=lv, denoms_ok=denoms_ok))
        w1, w2, w12 = (aggr_wire(nm, *a) for a in (a1, a2, a12))
        gen_lines += [f"add {len(nm)} {' '.join(nm)} {w1} {w2}",
                      f"ratio_cov {w12} " + " ".join(opt(r) for r in c["roles"]),
                      f"ratio_var {w12} " + " ".join(opt(r) for r in c["roles"][:2])]
    gen_out = Driver("DriverGen.lean").ask(gen_lines) if with_gen else None

    for i, (c, r) in enumerate(zip(cases, results)):
        nm = c["names"]
        A1, A2, A3, A12 = (mk_real(*r[k]) for k in ("a1", "a2", "a3", "a12"))
        chk.case(("add", i, len(nm), len(c["t1"]), len(c["t2"]), c["kind"]))
        chk.branch(f"kind={c['kind']}")
        chk.branch(f"cols={len(nm)}")
        chk.branch("n=2" if min(len(c["t1"]), len(c["t2"])) == 2 else "n>2")
        inp = dict(names=nm, t1=[[str(v) for v in row] for row in c["t1"]],
                   t2=[[str(v) for v in row] for row in c["t2"]], roles=c["roles"])
        # --- pooling
        st, val = real_call(lambda: A1 + A2)
        if st != "ok":
            chk.fail("Aggregates.__add__ raised", dict(input=inp, observed=val))
            continue
        real = flat(nm, val)
        want = flat(nm, A12)
        for (lab, got), (_, exp) in zip(real, want):
            if got != exp:
                chk.fail(f"a+b != aggregates of the concatenation ({lab})",
                         dict(input=inp, field=lab, observed=str(got), expected=str(exp)))
                break
        if with_gen:
            g = parse_aggr(nm, gen_out[3 * i])
            for (lab, got), (_, exp) in zip(real, flat(nm, mk_real(*g))):
                if got != exp:
                    chk.disagree(f"Gen.Aggr.add vs Aggregates.__add__ ({lab})",
                                 dict(input=inp, model=str(exp), impl=str(got)))
                    break
        # --- augmented assignment: `total = a; total += b` gives a + b and leaves the object `a` the caller still holds
        # (and the dicts it was built from) as they were
        Ai, Bi = mk_real(*r["a1"]), mk_real(*r["a2"])
        snap = (flat(nm, Ai), flat(nm, Bi))
        total = Ai
        try:
            total += Bi
            if flat(nm, total) != want or (flat(nm, Ai), flat(nm, Bi)) != snap:
                chk.fail("`total = a; total += b` is not a + b, or it changed the operand `a` / `b` the caller still holds",
                         dict(input=inp, total=[str(v) for _, v in flat(nm, total)][:6],
                              a_after=[str(v) for _, v in flat(nm, Ai)][:6], a_before=[str(v) for _, v in snap[0]][:6]))
        except Exception as ex:  # noqa: BLE001
            chk.fail("`total += b` raised", dict(input=inp, error=repr(ex)))
        # --- commutativity / associativity on the real code
        st2, ba = real_call(lambda: A2 + A1)
        if st2 != "ok" or flat(nm, ba) != real:
            chk.fail("a+b != b+a", dict(input=inp))
        st3, l = real_call(lambda: (A1 + A2) + A3)
        st4, rr = real_call(lambda: A1 + (A2 + A3))
        if st3 != "ok" or st4 != "ok" or flat(nm, l) != flat(nm, rr):
            chk.fail("(a+b)+c != a+(b+c)", dict(input=inp, t3=[[str(v) for v in row] for row in c["t3"]]))
        # --- delta method
        if r["denoms_ok"]:
            ro = c["roles"]
            chk.case(("ratio", i, tuple(ro)))
            chk.branch("roles-with-None" if None in ro else "roles-all-named")
            st, rc_ = real_call(lambda: A12.ratio_cov(*ro))
            st2, rv_ = real_call(lambda: A12.ratio_var(ro[0], ro[1]))
            if st != "ok" or st2 != "ok":
                chk.fail("ratio_cov/ratio_var raised", dict(input=inp, observed=[rc_, rv_]))
                continue
            if rc_ != r["lin_cov"]:
                chk.fail("ratio_cov != sample covariance of the linearised ratios",
                         dict(input=inp, observed=str(rc_), expected=str(r["lin_cov"])))
            if rv_ != r["lin_var"]:
                chk.fail("ratio_var != sample variance of the linearised ratios",
                         dict(input=inp, observed=str(rv_), expected=str(r["lin_var"])))
            if with_gen:
                if parse_num(gen_out[3 * i + 1]) != rc_:
                    chk.disagree("Gen.Aggr.ratio_cov vs Aggregates.ratio_cov",
                                 dict(input=inp, model=gen_out[3 * i + 1], impl=str(rc_)))
                if parse_num(gen_out[3 * i + 2]) != rv_:
                    chk.disagree("Gen.Aggr.ratio_var vs Aggregates.ratio_var",
                                 dict(input=inp, model=gen_out[3 * i + 2], impl=str(rv_)))
            # the same on a SUM whose operands were asked for their own ratio statistics first (a sum is the aggregate of
            # the concatenation, whatever was computed from its operands before)
            B1, B2 = mk_real(*r["a1"]), mk_real(*r["a2"])
            for B in (B1, B2):
                real_call(lambda B=B: (B.ratio_var(ro[0], ro[1]), B.ratio_cov(*ro)))
            stS, S = real_call(lambda: B1 + B2)
            if stS == "ok":
                stc, sc = real_call(lambda: S.ratio_cov(*ro))
                stv, sv = real_call(lambda: S.ratio_var(ro[0], ro[1]))
                if (stc, sc) != ("ok", r["lin_cov"]) or (stv, sv) != ("ok", r["lin_var"]):
                    chk.fail("ratio_var / ratio_cov of a + b are not those of the concatenation when the ratio statistics "
                             "of a and b were computed first (state carried from an operand into the sum)",
                             dict(input=inp, observed=[str(sc), str(sv)], expected=[str(r["lin_cov"]), str(r["lin_var"])]))
            # special cases named by the property
            x = ro[0] or nm[0]
            y = ro[2] or nm[-1]
            if A12.ratio_var(x, None) != A12.var(x):
                chk.fail("ratio_var(x, None) != var(x)", dict(input=inp, x=x))
            if A12.ratio_cov(x, None, y, None) != A12.cov(x, y) if x != y else False:
                chk.fail("ratio_cov(a, None, b, None) != cov(a, b)", dict(input=inp, a=x, b=y))
        if i < 2:
            chk.sample(dict(kind="exact pooling", names=nm, n1=len(c["t1"]), n2=len(c["t2"]),
                            t1_first_row=[str(v) for v in c["t1"][0]], roles=c["roles"],
                            pooled_var_c0=str(val.var_[nm[0]])))
    return results


def run_float(chk: Check, cases, results):
    """`for all floating-point inputs up to rounding`.  The float Aggregates are pooled by the real `__add__`; the
    reference is the EXACT value of the pooled statistics of those same float inputs (the real code run on their
    exact rationals: every algebraically correct formula gives this value).  A numerically stable formula reproduces
    it to ~1e-15 relative to the pooled spread; a formula that subtracts quantities of size mean^2 does not."""
    worst = 0.0
    for i, (c, r) in enumerate(zip(cases, results)):
        nm = c["names"]
        A1, A2 = (mk_real(*r[k], conv=float) for k in ("a1", "a2"))
        E1, E2 = (mk_real(*r[k], conv=lambda x: F(float(x))) for k in ("a1", "a2"))
        st, val = real_call(lambda: A1 + A2)
        st2, ref = real_call(lambda: E1 + E2)
        if st != "ok" or st2 != "ok":
            chk.fail("Aggregates.__add__ raised on floats", dict(case=i, observed=val if st != "ok" else ref))
            continue
        n = len(c["t1"]) + len(c["t2"])
        pooled_sd = {x: math.sqrt(max(float(ref.var_[x]), 0.0)) for x in nm}
        for (lab, got), (_, exp) in zip(flat(nm, val), flat(nm, ref)):
            kind, _, cols_ = lab.partition(" ")
            if kind == "count":
                tol = 0.0
            elif kind == "mean":
                tol = 1e-12 * (abs(float(exp)) + pooled_sd[cols_])
            elif kind == "var":
                tol = 1e-11 * abs(float(exp)) + 1e-300
            else:
                a, b = cols_.split(",")
                tol = 1e-11 * (abs(float(exp)) + pooled_sd[a] * pooled_sd[b]) + 1e-300
            err = abs(float(F(got) - F(exp))) if kind != "count" else abs(got - exp)
            worst = max(worst, err / tol if tol else 0)
            chk.case(("float", i, lab), nontrivial=False)
            if err > tol:
                chk.fail(f"float pooling is off by far more than rounding ({lab}): a cancellation-prone formula?",
                         dict(case=i, names=nm, kind=c["kind"], observed=repr(got), exact=float(exp), error=err, tol=tol, n=n,
                              left=repr(A1)[:400], right=repr(A2)[:400]))
                break
    chk.cov["float_worst_err_over_tol"] = round(worst, 4)
    float_ratio(chk, cases, results)


def float_ratio(chk: Check, cases, results):
    """`ratio_var` / `ratio_cov` on floats, for denominators of ANY magnitude ("for all real means"), on plain
    Aggregates and on `with_zero_div()` Aggregates (whose arithmetic goes through `utils.div`): the value must be the
    exact value of the same float inputs up to rounding (scaled by the size of the terms that are added), and the
    zero-division-safe wrappers must not change a division whose divisor is not zero."""
    import tea_tasting.aggr as ta
    for i, (c, r) in enumerate(zip(cases, results)):
        nm = c["names"]
        if len(nm) < 2:
            continue
        x, y = nm[0], nm[1]
        count, mean, var, cov = r["a1"]
        for scale in (1.0, 1e-7, 1e-9, 1e6):
            def scaled(conv):
                mu = {k: conv(float(v) * (scale if k == y else 1.0)) for k, v in mean.items()}
                vr = {k: conv(float(v) * (scale * scale if k == y else 1.0)) for k, v in var.items()}
                cv = {k: conv(float(v) * (scale if (k[0] == y) != (k[1] == y) else (scale * scale if k[0] == y else 1.0)))
                      for k, v in cov.items()}
                return ta.Aggregates(count_=int(count), mean_=mu, var_=vr, cov_=cv)
            Af, Ae = scaled(float), scaled(lambda v: F(v))
            if Ae.mean_[y] == 0 or Ae.mean_[x] == 0:
                continue
            def size_of(ln, ld, rn, rd):
                """sum of the magnitudes of the four delta-method terms (exact): rounding errors are relative to it"""
                ml, mr = Ae.mean(ld), Ae.mean(rd)
                L, R = Ae.mean(ln) / ml, Ae.mean(rn) / mr
                ts = (Ae.cov(ln, rn), Ae.cov(ln, rd) * R, Ae.cov(ld, rn) * L, Ae.cov(ld, rd) * L * R)
                return float(sum(abs(F(t)) for t in ts) / abs(F(ml) * F(mr)))
            for what, call, roles in (("ratio_var(x, y)", lambda a: a.ratio_var(x, y), (x, y, x, y)),
                                      ("ratio_cov(x, y, y, x)", lambda a: a.ratio_cov(x, y, y, x), (x, y, y, x)),
                                      ("ratio_cov(x, None, x, y)", lambda a: a.ratio_cov(x, None, x, y), (x, None, x, y))):
                chk.case(("float-ratio", i, scale, what), nontrivial=False)
                s0, exact = real_call(lambda: call(Ae))
                s1, plain = real_call(lambda: call(Af))
                s2, safe = real_call(lambda: call(Af.with_zero_div()))
                inp = dict(case=i, what=what, x=x, y=y, scale_of_y=scale, aggregates=repr(Af)[:500])
                if "ok" not in (s0,) or s1 != "ok" or s2 != "ok":
                    chk.fail("ratio_var / ratio_cov raised on floats with non-zero means",
                             dict(input=inp, exact=str(exact)[:100], plain=str(plain)[:100], zero_div_safe=str(safe)[:100]))
                    continue
                tol = 1e-9 * size_of(*roles) + 1e-300
                for lab, got in (("plain", plain), ("with_zero_div", safe)):
                    g = float(got)
                    if not (abs(g - float(exact)) <= tol):
                        chk.fail(f"{what} on {lab} float Aggregates is not the exact value of the same inputs up to rounding",
                                 dict(input=inp, observed=g, exact=float(exact), tol=tol))
                        break


def main():
    chk = Check(PROP)
    chk.trusted = common.BASE_TRUST + [
        "modelled, not verified: Python dict bookkeeping of Aggregates (key sets) — the model's Aggr is a total "
        "function of column names; key handling is exercised by the correspondence",
        "float clause: not proved (no rounding model); checked against exact rationals with a "
        "conditioning-scaled tolerance",
    ]
    chk.assumptions = ["samples of size >= 2 per side (the sizes for which the real code has a variance)",
                       "ratio clauses: non-zero denominator means (degenerate data is C18)"]
    proved = chk.prove()
    have_model = chk.ensure_driver_model()
    n = 40 if chk.tier == "quick" else 400
    max_rows = 12 if chk.tier == "quick" else 60
    cases = build_cases(chk, n, max_rows)
    results = run_exact(chk, cases, with_gen=have_model)
    run_float(chk, cases, results)
    chk.cov["rule"] = ("random rational tables (kinds: fractions / small ints / large common offset / tied rows), "
                       "1-4 columns, 2..max rows per side; non-trivial = distinct (sizes, kind, roles) tuple")
    chk.cov["proved"] = proved

    def extended():
        more = build_cases(chk, 400, 30)
        run_exact(chk, more, with_gen=False)

    chk.finish(extended_search=extended)


def replay(path):
    data = json.loads(open(path).read())
    print(json.dumps(data, indent=1)[:4000])
    main()


if __name__ == "__main__":
    main()
