"""C06 — CUPED/CUPAC equals regression adjustment with the pooled coefficient.

Proof: lean/TeaTasting/Props/C06.lean (over Gen/Mean.lean + Gen/Aggr.lean).
Tie: translator + exact correspondence; search: real code vs Spec.cupedTest at Q, plus the
consequences named by the property checked on the real code (exactly, on Fractions).
"""
from __future__ import annotations

import math

import json
from fractions import Fraction as F

import analysis
import common
import reuse
from analysis import CELLS, FIELDS, NAMES, make_case, real_analyze, run_cases, same
from common import Check, Driver, table_wire
from props.c14 import parse_aggr

PROP = "C06"
KINDS = ("mean_cov", "ratio_ncov", "ratio_cov", "mean_ratio_cov")


def aggs_of(tables):
    out = Driver("DriverSpec.lean").ask([f"aggrof 4 {' '.join(NAMES)} {table_wire(t)}" for t in tables])
    return [parse_aggr(NAMES, o) for o in out]


def transform(t, j, a, b):
    return [[(a * v + b) if k == j else v for k, v in enumerate(r)] for r in t]


def consequences(chk: Check, cases):
    """affine / rescale invariance, zero-variance no-op, pooled-mean preservation — on the real code"""
    rng = chk.rng
    jobs = []
    for c in cases:
        a = F(rng.choice([-3, -1, 2, 5, 7]), rng.choice([1, 2, 3]))
        b = F(rng.randint(-9, 9), rng.choice([1, 2]))
        if c["role_kind"] == "mean_cov":
            jobs.append((c, "affine", 2, a, b))
        else:
            jobs.append((c, "rescale-ncov", 2, a, F(0)))
            if c["roles"][3] is not None:
                jobs.append((c, "rescale-dcov", 3, abs(a), F(0)))
    tables = []
    for c, _, j, a, b in jobs:
        tables += [c["tc"], c["tt"], transform(c["tc"], j, a, b), transform(c["tt"], j, a, b)]
    ag = aggs_of(tables)
    for k, (c, what, j, a, b) in enumerate(jobs):
        s0, r0 = real_analyze(c, ag[4 * k], ag[4 * k + 1])
        s1, r1 = real_analyze(c, ag[4 * k + 2], ag[4 * k + 3])
        chk.case(("conseq", what, k))
        chk.branch(f"consequence:{what}")
        if s0 != "ok" or s1 != "ok":
            if "zerodiv" in (s0, s1):
                continue
            chk.fail(f"analysis raised in {what} check", dict(case=c["roles"], observed=[r0, r1]))
            continue
        for f, x, y in zip(FIELDS, r0, r1):
            if not same(x, y):
                chk.fail(f"{what}: replacing covariate column c{j} by {a}*x+{b} changed field {f}",
                         dict(roles=c["roles"], cell=[c["alt"], c["ev"], c["ut"]], cl=str(c["cl"]),
                              control=[[str(v) for v in r] for r in c["tc"]],
                              treatment=[[str(v) for v in r] for r in c["tt"]],
                              a=str(a), b=str(b), field=f, before=str(x), after=str(y)))
                break
    # zero-variance covariate == no covariate; pooled mean preserved (Mean)
    zjobs = [c for c in cases if c["cov_mode"] == "const" and c["roles"][3] is None]
    mjobs = [c for c in cases if c["role_kind"] == "mean_cov"]
    ag = aggs_of([t for c in zjobs + mjobs for t in (c["tc"], c["tt"])])
    for k, c in enumerate(zjobs):
        c0 = dict(c, roles=(c["roles"][0], c["roles"][1], None, None),
                  role_kind="mean" if c["roles"][1] is None else "ratio")
        s0, r0 = real_analyze(c, ag[2 * k], ag[2 * k + 1])
        s1, r1 = real_analyze(c0, ag[2 * k], ag[2 * k + 1])
        chk.case(("zero-var", k))
        chk.branch("consequence:zero-variance")
        if s0 == "ok" and s1 == "ok":
            for f, x, y in zip(FIELDS, r0, r1):
                if not same(x, y, approx=True):   # the covariate-free run is float-tainted (`1 / 1`)
                    chk.fail(f"zero-variance covariate changed field {f}",
                             dict(roles=c["roles"], field=f, with_cov=str(x), without=str(y),
                                  control=[[str(v) for v in r] for r in c["tc"]],
                                  treatment=[[str(v) for v in r] for r in c["tt"]]))
                    break
        elif "raise" in (s0, s1):
            chk.fail("analysis raised with a constant covariate", dict(roles=c["roles"], observed=[r0, r1]))
    off = 2 * len(zjobs)
    for k, c in enumerate(mjobs):
        s0, r0 = real_analyze(c, ag[off + 2 * k], ag[off + 2 * k + 1])
        chk.case(("mean-preserved", k))
        chk.branch("consequence:mean-preserved")
        if s0 != "ok":
            continue
        nc, nt = len(c["tc"]), len(c["tt"])
        y = analysis.col(c["tc"] + c["tt"], c["roles"][0])
        pooled = sum(y) / len(y)
        got = (nc * r0[0] + nt * r0[1]) / (nc + nt)
        if got != pooled:
            chk.fail("weighted average of adjusted means != unadjusted pooled mean",
                     dict(roles=c["roles"], observed=str(got), expected=str(pooled),
                          control=[[str(v) for v in r] for r in c["tc"]],
                          treatment=[[str(v) for v in r] for r in c["tt"]]))


def float_affine(chk: Check, n):
    """Float mode: replacing the covariate X by X + b with a LARGE offset b changes nothing (up to rounding).  In exact
    arithmetic every algebraically equivalent pooling formula passes; a formula that subtracts quantities of size
    mean^2 (sum of squares minus n*mean^2) fails here by many orders of magnitude."""
    import numpy as np
    import pyarrow as pa
    import tea_tasting as tt
    rng = np.random.default_rng(chk.seed + 66)
    for k in range(n):
        alt, ev, ut = analysis.CELLS[k % len(analysis.CELLS)]
        nc, nt = int(rng.integers(20, 200)), int(rng.integers(20, 200))
        x = rng.integers(0, 40, nc + nt).astype(float)             # integer-valued: x + b is exact
        y = 0.5 * x + rng.normal(0, 3, nc + nt) + np.r_[np.zeros(nc), np.full(nt, 0.7)]
        base = None
        for b in (0.0, 100.0, 1e6, 1e7, "x1e-7", "x2^20", "x1e-9", "x-1e-8", "x1e-12"):
            xb = x * float(b[1:]) if isinstance(b, str) and b != "x2^20" else x * 2.0 ** 20 if b == "x2^20" else x + b     # offsets and rescalings (tiny and negative units too)
            data = pa.table({"variant": [0] * nc + [1] * nt, "y": y, "x": xb})
            try:
                r = tt.Mean("y", "x", alternative=alt, equal_var=ev, use_t=ut).analyze(data, 0, 1, "variant")
            except Exception as ex:  # noqa: BLE001
                chk.fail("analysis raised on plain float data", dict(offset=b, error=repr(ex)))
                break
            chk.case(("float-affine", alt, ev, ut, b))
            chk.branch("float-affine-offset")
            if base is None:
                base = r
                continue
            for f in analysis.FIELDS:
                u, v = float(getattr(base, f)), float(getattr(r, f))
                if not (u == v or (math.isinf(u) and u == v) or abs(u - v) <= 1e-7 * max(abs(u), abs(v)) + 1e-12):
                    chk.fail(f"float mode: replacing the covariate X by {'X + ' + format(b, 'g') if not isinstance(b, str) else 'X * ' + b[1:]} changes field {f} far beyond rounding",
                             dict(cell=[alt, ev, ut], offset=b, field=f, original=u, shifted=v, n=[nc, nt], seed=chk.seed, case=k))
                    break


def float_zero_linearised(chk: Check, n):
    """a RATIO covariate whose linearisation has zero variance although one of its columns varies (numerator
    covariate identically 0 over a varying denominator covariate; or both columns proportional): the covariate carries
    no information, the result must be the unadjusted one"""
    import numpy as np
    import pyarrow as pa
    import tea_tasting as tt
    rng = np.random.default_rng(chk.seed + 67)
    for k in range(n):
        alt, ev, ut = analysis.CELLS[k % len(analysis.CELLS)]
        nc, nt = int(rng.integers(10, 80)), int(rng.integers(10, 80))
        x = rng.normal(5, 2, nc + nt)
        y = rng.integers(1, 6, nc + nt).astype(float)
        dcov = rng.integers(1, 9, nc + nt).astype(float)
        kind = ("numerator covariate identically 0", "numerator covariate = 2 x denominator covariate")[k % 2]
        ncov = np.zeros(nc + nt) if k % 2 == 0 else 2.0 * dcov
        data = pa.table({"variant": [0] * nc + [1] * nt, "x": x, "y": y, "ncov": ncov, "dcov": dcov})
        kw = dict(alternative=alt, equal_var=ev, use_t=ut)
        chk.case(("zero-linearised", kind, alt, ev, ut))
        chk.branch("consequence:zero-variance-linearised")
        try:
            r1 = tt.RatioOfMeans("x", "y", "ncov", "dcov", **kw).analyze(data, 0, 1, "variant")
            r0 = tt.RatioOfMeans("x", "y", **kw).analyze(data, 0, 1, "variant")
        except Exception as ex:  # noqa: BLE001
            chk.fail("analysis raised with a ratio covariate of zero variance", dict(kind=kind, options=kw, error=repr(ex)))
            continue
        for f in analysis.FIELDS:
            u, v = float(getattr(r0, f)), float(getattr(r1, f))
            if not (u == v or (math.isnan(u) and math.isnan(v)) or abs(u - v) <= 1e-9 * max(abs(u), abs(v)) + 1e-12):
                chk.fail(f"a ratio covariate with zero variance ({kind}) changed field {f}",
                         dict(options=kw, n=[nc, nt], field=f, without=u, with_covariate=v, seed=chk.seed, case=k))
                break


def float_ratio_covariate_units(chk: Check, n):
    """rescaling ONE column of a ratio covariate (numerator or denominator, by 1e-7 … 1e7) changes nothing"""
    import numpy as np
    import pyarrow as pa
    import tea_tasting as tt
    rng = np.random.default_rng(chk.seed + 69)
    for k in range(n):
        alt, ev, ut = analysis.CELLS[k % len(analysis.CELLS)]
        nc, nt = int(rng.integers(20, 120)), int(rng.integers(20, 120))
        N = nc + nt
        d = rng.integers(1, 6, N).astype(float)
        y = rng.normal(3, 1, N) * d
        dx = d + rng.integers(0, 3, N)
        x = 0.6 * y + rng.normal(0, 1, N) * dx
        kw = dict(alternative=alt, equal_var=ev, use_t=ut)
        base = None
        for which, c in (("-", 1.0), ("dx", 1e7), ("dx", 1e-7), ("x", 1e7), ("x", 1e-6)):
            data = pa.table({"variant": [0] * nc + [1] * nt, "y": y, "d": d, "x": x * (c if which == "x" else 1.0),
                             "dx": dx * (c if which == "dx" else 1.0)})
            chk.case(("ratio-covariate-units", which, c, alt, ev, ut))
            chk.branch("consequence:ratio-covariate-units")
            try:
                r = tt.RatioOfMeans("y", "d", "x", "dx", **kw).analyze(data, 0, 1, "variant")
            except Exception as ex:  # noqa: BLE001
                chk.fail("analysis raised on plain float data", dict(rescaled=which, factor=c, error=repr(ex)))
                break
            if base is None:
                base = r
                continue
            bad = [f for f in analysis.FIELDS
                   if not (float(getattr(base, f)) == float(getattr(r, f))
                           or abs(float(getattr(base, f)) - float(getattr(r, f)))
                           <= 1e-7 * max(abs(float(getattr(base, f))), abs(float(getattr(r, f)))) + 1e-12)]
            if bad:
                chk.fail(f"rescaling the covariate column '{which}' by {c:g} changes field {bad[0]} far beyond rounding",
                         dict(options=kw, n=[nc, nt], field=bad[0], original=float(getattr(base, bad[0])),
                              rescaled=float(getattr(r, bad[0])), seed=chk.seed, case=k))
                break


def float_other_variants(chk: Check, n):
    """theta and the covariate centre are pooled over CONTROL and TREATMENT: a third variant present in the data must not
    enter them — the pair analysed inside a three-variant frame equals the pair analysed on its own rows"""
    import numpy as np
    import pyarrow as pa
    import pyarrow.compute as pc
    import tea_tasting as tt
    rng = np.random.default_rng(chk.seed + 68)
    for k in range(n):
        alt, ev, ut = analysis.CELLS[k % len(analysis.CELLS)]
        sizes = [int(rng.integers(15, 60)) for _ in range(3)]
        N = sum(sizes)
        variant = np.repeat([0, 1, 2], sizes)
        cov = rng.normal(0, 1, N) + np.repeat([0.0, 0.3, 4.0], sizes)      # the third variant's covariate sits elsewhere
        y = 2.0 + 0.8 * cov * np.repeat([1.0, 1.0, -1.5], sizes) + rng.normal(0, 1, N)
        den = rng.integers(1, 5, N).astype(float)
        data = pa.table({"variant": variant, "y": y, "x": cov, "d": den, "dx": den + rng.integers(0, 3, N)})
        kw = dict(alternative=alt, equal_var=ev, use_t=ut)
        ms = dict(mean_cov=tt.Mean("y", "x", **kw), ratio_cov=tt.RatioOfMeans("y", "d", "x", "dx", **kw))
        chk.case(("other-variants", alt, ev, ut))
        chk.branch("consequence:third-variant-present")
        only = data.filter(pc.is_in(data["variant"], value_set=pa.array([0, 1])))
        try:
            full = {k_: m.analyze(data, 0, 1, "variant") for k_, m in ms.items()}
            exp3 = tt.Experiment(ms).analyze(data, 0, all_variants=True)[(0, 1)]
            pair = {k_: m.analyze(only, 0, 1, "variant") for k_, m in ms.items()}
        except Exception as ex:  # noqa: BLE001
            chk.fail("analysis raised on a three-variant frame", dict(options=kw, error=repr(ex)))
            continue
        for name in ms:
            for label, got in (("metric.analyze on the three-variant frame", full[name]), ("Experiment.analyze, pair (0, 1)", exp3[name])):
                bad = [f for f in analysis.FIELDS
                       if not (float(getattr(got, f)) == float(getattr(pair[name], f))
                               or abs(float(getattr(got, f)) - float(getattr(pair[name], f)))
                               <= 1e-9 * max(abs(float(getattr(got, f))), abs(float(getattr(pair[name], f)))) + 1e-12)]
                if bad:
                    chk.fail("with a covariate, the result for (control, treatment) changes when a third variant is present in "
                             "the data: the coefficient / covariate centre are not pooled over the two compared variants only",
                             dict(metric=name, how=label, options=kw, field=bad[0], sizes=sizes,
                                  got=float(getattr(got, bad[0])), pair_only=float(getattr(pair[name], bad[0])),
                                  seed=chk.seed, case=k))
                    break


def build(chk, n_per_kind, max_rows=14):
    cases = []
    i = 0
    for kind in KINDS:
        for k in range(n_per_kind):
            cases.append(make_case(chk.rng, kind, CELLS[(k + i) % len(CELLS)], k, max_rows))
        i += 5
    return cases


def main():
    chk = Check(PROP)
    chk.trusted = common.BASE_TRUST + [
        "assumed of the primitives (hypothesis Prims.QuantileLaws): isf q = -ppf q on (0,1) for t and norm, "
        "exp(-x) = 1/exp x; proved for the rational stand-ins (Props/StubLaws.lean), sampled on scipy by C07",
        "exact mode substitutions: utils.numeric lets Fractions through; names math/scipy inside "
        "tea_tasting.metrics.mean rebound to rational stand-ins",
    ]
    chk.assumptions = [">= 2 rows per variant; non-zero denominator means per variant and pooled",
                       "confidence_level in (0,1)"]
    proved = chk.prove()
    have_model = chk.ensure_driver_model()
    n = 24 if chk.tier == "quick" else 240
    cases = build(chk, n)
    run_cases(chk, cases, family=1, with_gen=have_model)
    if chk.tier == "thorough":
        run_cases(chk, build(chk, 60), family=2, with_gen=have_model, label="[family 2] ")
    consequences(chk, cases[:: 2 if chk.tier == "quick" else 1])
    float_zero_linearised(chk, 12 if chk.tier == "quick" else 120)
    float_other_variants(chk, 12 if chk.tier == "quick" else 120)
    float_ratio_covariate_units(chk, 12 if chk.tier == "quick" else 120)
    reuse.metric_object_reuse(chk, 12 if chk.tier == "quick" else 120, "the adjustment must be the one of the data at hand")
    float_affine(chk, 12 if chk.tier == "quick" else 96)
    chk.cov["rule"] = ("random rational data sets (2..28 rows per variant, balanced and 1:many), metric kinds "
                       "Mean+covariate / ratio+numerator covariate / ratio+ratio covariate, covariate modes "
                       "noisy / independent / constant / exactly affine in the metric, all 12 option cells, random "
                       "confidence levels; non-trivial = distinct (kind, cell, covariate mode, sizes, level)")
    chk.cov["proved"] = proved

    def extended():
        run_cases(chk, build(chk, 150), family=1, with_gen=False)
        run_cases(chk, build(chk, 40), family=2, with_gen=False, label="[family 2] ")

    chk.finish(extended_search=extended)


def replay(path):
    print(open(path).read()[:4000])
    main()


if __name__ == "__main__":
    main()
