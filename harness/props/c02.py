"""C02 — results do not depend on backend, row order, chunking or unrelated columns.

Proof: lean/TeaTasting/Props/C02.lean (statistics invariant under row permutations and under changes of
unrequested columns; the three pipelines agree; result keys = distinct variants) on top of C01/C03.
Tie: C01's structural tie of the pipelines (re-checked here on a sample) + cross-backend float runs of the REAL
Experiment.analyze / solve_power: the same logical data as 5 input kinds x row permutations x chunkings x
unrelated columns; every result is compared with the reference run and the keys as Python values AND types.
"""
from __future__ import annotations

import math
import warnings

import backends
import analysis
import common
import reuse
from common import Check
from props import c01

PROP = "C02"


def close(a, b, rel=1e-8, abs_=1e-11):
    if isinstance(a, (str, bool)) or a is None or isinstance(b, (str, bool)) or b is None:
        return a == b and type(a) is type(b)
    a, b = float(a), float(b)
    if math.isnan(a) or math.isnan(b):
        return math.isnan(a) and math.isnan(b)
    if math.isinf(a) or math.isinf(b):
        return a == b
    return abs(a - b) <= rel * max(abs(a), abs(b)) + abs_


def as_dict(r):
    return r if isinstance(r, dict) else r._asdict()


def flatten(res):
    """ExperimentResults -> {(pair, metric, field): value}"""
    out = {}
    for k, v in res.items():
        for name, r in v.items():
            for f, x in as_dict(r).items():
                out[(k, name, f)] = x
    return out


def flatten_power(res):
    out = {}
    for name, rs in res.items():
        for j, r in enumerate(rs):
            for f, x in as_dict(r).items():
                out[("power", name, j, f)] = x
    return out


def gen_data(rng, i):
    import numpy as np
    nv = rng.randint(2, 4)
    idkind = ("int", "str", "bool")[i % 3]
    if idkind == "bool":
        nv = 2
    ids = {"int": [3, 0, 7, 11], "str": ["b", "a", "ctl", "zz"], "bool": [False, True]}[idkind][:nv]
    nprng = np.random.default_rng(rng.randint(0, 2**31))
    n = rng.choice([30, 101, 400])
    variant = [ids[int(j)] for j in nprng.integers(0, nv, n)]
    for v in ids:
        variant += [v, v, v]
    n = len(variant)
    sessions = 1 + nprng.poisson(2, n)
    orders = nprng.binomial(sessions, 0.3)
    revenue = orders * nprng.lognormal(2, 0.5, n) + nprng.normal(5, 1, n)
    if i % 3 == 2:
        revenue = revenue + 1e6          # a large common offset: one-pass variance formulas lose ~1e-5 relative here
    if i % 4 == 1:
        # variants sitting at very DIFFERENT levels (a variant's mean ~1e6..1e7 within-variant standard deviations away
        # from the overall mean): demeaning by anything but the variant's own mean cancels catastrophically, and by a
        # different amount for every row order, chunking and engine
        # (the covariate stays at its ordinary level: a covariate that tracks the levels would make the CUPED-adjusted
        # effect a difference of two numbers of size 3e7 that nearly cancel — ill-conditioned for ANY implementation)
        level = dict(zip(ids, [0.0, 50.0, 3e7, -2e5]))
        base_revenue = revenue
        revenue = revenue + np.array([level[v] for v in variant])
    cols = {
        "variant": variant,
        "sessions": sessions.tolist(),                        # int column
        "orders": (orders + nprng.normal(1, 0.1, n)).tolist(),
        "revenue": revenue.tolist(),
        "rev_cov": (0.7 * (base_revenue if i % 4 == 1 else revenue) + nprng.normal(0, 2, n)).tolist(),
        "ses_cov": (sessions + nprng.normal(0, 0.5, n) + 2).tolist(),
    }
    return idkind, ids, cols


def definitions(rng, with_granular):
    import numpy as np
    import tea_tasting as tt
    m = {
        "mean": tt.Mean("revenue"),
        "mean_cov": tt.Mean("revenue", "rev_cov", alternative=rng.choice(["two-sided", "greater", "less"])),
        "ratio": tt.RatioOfMeans("orders", "sessions", equal_var=rng.random() < 0.5),
        "ratio_cov": tt.RatioOfMeans("revenue", "sessions", "rev_cov", "ses_cov", use_t=rng.random() < 0.5),
        "sr": tt.SampleRatio(),
    }
    if with_granular:
        m["q"] = tt.Quantile("revenue", q=0.5, n_resamples=30, random_state=11)
        m["b"] = tt.Bootstrap(("revenue", "sessions"), lambda a, axis=0: np.mean(np.take(a, 0, axis=-1), axis=axis)
                              / np.mean(np.take(a, 1, axis=-1), axis=axis), n_resamples=30, random_state=5)
    keys = list(m)
    rng.shuffle(keys)
    return {k: m[k] for k in keys}


def variants_of(cols, rng, order_preserving):
    """(label, input) for the same logical data: permutations, chunkings, supersets of columns"""
    import polars as pl
    import pyarrow as pa
    n = len(cols["variant"])
    out = []
    base = backends.make_inputs(cols)
    for kind, d in base.items():
        out.append((kind, d, True))
    perm = list(range(n))
    rng.shuffle(perm)
    pcols = {c: [v[j] for j in perm] for c, v in cols.items()}
    for kind, d in backends.make_inputs(pcols, ("pandas", "polars-lazy", "pyarrow", "ibis-sqlite")).items():
        out.append((kind + "+perm", d, False))
    for chunks in (2, 7):
        out.append((f"pyarrow+{chunks}chunks", backends.make_inputs(cols, ("pyarrow",), chunks=chunks)["pyarrow"], True))
    t = pl.DataFrame({k: [backends._py(x) for x in v] for k, v in cols.items()})
    k = max(1, n // 3)
    out.append(("polars+3chunks", pl.concat([t[:k], t[k:2 * k], t[2 * k:]], rechunk=False), True))
    extra = dict(cols)
    extra["zz_str"] = [f"s{j % 5}" for j in range(n)]
    extra["zz_null"] = [None] * n
    extra["zz_num"] = [float(j) for j in range(n)]
    # unrelated columns that carry the names of the library's own intermediate / output columns
    for nm in ("_group_mean__revenue", "_demean__revenue", "_var__revenue", "_count", "_mean__orders"):
        extra[nm] = [float((7 * j) % 13) for j in range(n)]
    cols_first = {"zz_num": extra["zz_num"], **{c: extra[c] for c in reversed(list(cols))}, "zz_str": extra["zz_str"],
                  **{k_: v for k_, v in extra.items() if k_.startswith("_")}}
    pdf = backends.make_inputs(cols_first, ("pandas",))["pandas"]
    # a pandas `object` column mixing ints, strings, floats and None: it has no Arrow representation, and no metric
    # reads it — it must never be converted
    pdf["zz_mixed"] = [(j, f"s{j}", j / 2, None)[j % 4] for j in range(n)]
    out.append(("pandas+extra", pdf, True))
    out.append(("polars-lazy+extra", pl.DataFrame({k_: [backends._py(x) for x in v] for k_, v in extra.items()},
                                                  schema_overrides={"zz_null": pl.Float64}).lazy(), True))
    out.append(("pyarrow+extra", pa.table({k_: [backends._py(x) for x in v] for k_, v in extra.items()
                                           if k_ != "zz_null"}).append_column("zz_null", pa.nulls(n, pa.float64())), True))
    sq = {k_: v for k_, v in extra.items() if k_ != "zz_null"}
    out.append(("ibis-sqlite+extra", backends.sqlite_table({k_: [backends._py(x) for x in v] for k_, v in sq.items()}), False))
    return out


def run(chk: Check, n):
    import tea_tasting as tt
    rng = chk.rng
    worst = 0.0
    for i in range(n):
        idkind, ids, cols = gen_data(rng, i)
        with_gran = i % 2 == 1
        metrics = definitions(rng, with_gran)
        exp = tt.Experiment(metrics)
        control = None if i % 3 else sorted(ids)[rng.randrange(len(ids))]
        pmetrics = {
            "mean": tt.Mean("revenue", "rev_cov", rel_effect_size=0.05, n_obs=(1000, 4000)),
            "ratio": tt.RatioOfMeans("orders", "sessions", effect_size=0.02, power=0.9),
        }
        pexp = tt.Experiment(pmetrics)
        ref = None
        for label, data, ordered in variants_of(cols, rng, with_gran):
            if idkind == "bool" and label.startswith("ibis-sqlite"):
                continue    # SQLite has no boolean type: the ENGINE returns 0/1 (not tea-tasting's doing)
            chk.case(("xbackend", label, idkind, len(ids), with_gran, len(cols["variant"])))
            chk.branch("input:" + label)
            chk.branch("ids:" + idkind)
            inp = dict(input=label, ids=repr(ids), control=repr(control), rows=len(cols["variant"]),
                       metrics=list(metrics), seed=chk.seed, case=i)
            try:
                res = exp.analyze(data, control, all_variants=True)
                pres = pexp.solve_power(data, "power" if i % 2 else "rel_effect_size")
            except Exception as ex:  # noqa: BLE001
                chk.fail("analyze / solve_power raised on one input kind of valid data", dict(input=inp, error=repr(ex)))
                continue
            flat = flatten(res)
            flat.update(flatten_power(pres))
            keys = [(repr(k), type(k[0]).__name__, type(k[1]).__name__) for k in res.keys()]
            if ref is None:
                ref = (label, flat, keys)
                exp_ids = sorted(ids)
                got_ids = sorted({k[0] for k in res.keys()} | {k[1] for k in res.keys()})
                if got_ids != exp_ids or any(type(a) is not type(b) for a, b in zip(got_ids, exp_ids)):
                    chk.fail("variant keys of the result are not the variant values of the data",
                             dict(input=inp, got=repr(got_ids), expected=repr(exp_ids)))
                continue
            if keys != ref[2]:
                chk.fail("variant keys of the result differ between inputs (as Python values / types)",
                         dict(input=inp, reference=ref[0], got=keys, expected=ref[2]))
                continue
            if set(flat) != set(ref[1]):
                chk.fail("result fields differ between inputs", dict(input=inp, reference=ref[0]))
                continue
            for k, v in flat.items():
                granular = len(k) == 3 and k[1] in ("q", "b")
                if granular and not ordered:
                    continue              # resampling metrics: same numbers only for the same row order
                w = ref[1][k]
                # with the 1e6 offset the differences of means lose ~7 digits on every engine (conditioning, not a
                # defect): two-pass results still agree to 1e-6, one-pass formulas are off by ~1e-5
                ok = close(v, w, rel=0.0, abs_=0.0) if granular else close(v, w, rel=1e-6 if i % 3 == 2 else 1e-8)
                if not ok:
                    chk.fail("the same logical data gives different results depending on how it arrives",
                             dict(input=inp, reference=ref[0], field=repr(k), got=repr(v), expected=repr(w)))
                    break
                try:
                    if not granular and isinstance(v, float) and math.isfinite(v) and w not in (0, None):
                        worst = max(worst, abs(float(v) - float(w)) / (abs(float(w)) + 1e-300))
                except TypeError:
                    pass
        if i < 2:
            chk.sample(dict(kind="cross-backend run", ids=repr(ids), metrics=list(metrics), rows=len(cols["variant"]),
                            reference=ref[0] if ref else None, n_fields=len(ref[1]) if ref else 0))
    chk.cov["max_rel_diff_between_inputs"] = worst


def main():
    warnings.filterwarnings("ignore")
    chk = Check(PROP)
    chk.trusted = common.BASE_TRUST + [
        "the theorems are about the exact model (C01's query algebra); that the engines implement mean/sum/len/window "
        "as Query.evalRow says, float noise, physical chunk layouts and lazy-vs-eager execution are exercised by the "
        "cross-backend runs, not proved (`backend independence` is partial in this sense)",
        "everything after the aggregates is one Python code path (a function of the Aggregates), covered by C04-C06/C11",
        "resampling metrics are compared only between inputs with the same row order (property text)",
        "SQLite returns booleans as 0/1: Ibis-SQLite with bool variant ids is skipped (engine limitation)",
    ]
    chk.assumptions = [">= 2 rows per variant, positive variances, non-constant covariates (property quantifier)"]
    proved = chk.prove(extra_targets=["TeaTasting.Model.Query"])
    with common.Lock():
        common.lake_build(["TeaTasting.Model.Query", "TeaTasting.Spec.Fast", "TeaTasting.Driver.Proto"])
    q = chk.tier == "quick"
    mism = c01.structural(chk, 12 if q else 60)          # the pipelines the theorems speak about are the code's
    c01.evaluate_captured(chk, mism)
    run(chk, 6 if q else 40)
    reuse.analyze_after_mutation(chk, 4 if q else 24, "results depend on more than the data")
    analysis.narrow_ints(chk, 4 if q else 24, "results depend on how the same logical data is stored")
    chk.cov["rule"] = ("data: 2..4 variants (int / str / bool ids), 36..412 rows, int and float columns; definitions: Mean, "
                       "Mean+cov, ratio, ratio+cov, SampleRatio (+ Quantile, 2-column Bootstrap, fixed seeds, every other "
                       "case), control None / given, all pairs, solve_power; inputs: pandas, Polars eager / lazy, PyArrow, "
                       "Ibis-SQLite, + row permutation, 2/7-chunk Arrow (with an empty chunk), 3-chunk Polars, "
                       "+3 unrelated columns (string, all-null, numeric; reordered)")
    chk.cov["proved"] = proved

    def extended():
        run(chk, 12)

    chk.finish(extended_search=extended)


def replay(path):
    print(open(path).read()[:4000])
    main()
