"""C17 — changing units or swapping variant roles changes results only as it must.

Proof: lean/TeaTasting/Props/C17.lean (scale_numerator, scale_ratio_both, swap_roles and their *_code forms
over the generated analysis).  Tie: translator + exact correspondence (shared with C06).
Search: metamorphic relations on the REAL code — swap in exact mode (rational stand-ins satisfy the
symmetry laws), scaling in float mode end-to-end through Experiment.analyze (c = 2^k and arbitrary c).
"""
from __future__ import annotations

import math
from fractions import Fraction as F

import analysis
import common
import reuse
from analysis import CELLS, FIELDS, make_case, real_analyze, run_cases, same
from common import Check
from props.c06 import aggs_of

PROP = "C17"
KINDS = ("mean", "ratio", "mean_cov", "ratio_ncov", "ratio_cov")
MIRROR = {"greater": "less", "less": "greater", "two-sided": "two-sided"}


def swap_exact(chk: Check, cases):
    ag = aggs_of([t for c in cases for t in (c["tc"], c["tt"])])
    for k, c in enumerate(cases):
        ac, at = ag[2 * k], ag[2 * k + 1]
        c2 = dict(c, alt=MIRROR[c["alt"]])
        s0, r0 = real_analyze(c, ac, at)
        s1, r1 = real_analyze(c2, at, ac)
        chk.case(("swap", c["role_kind"], c["alt"], c["ev"], c["ut"], k))
        chk.branch(f"swap:{c['role_kind']}")
        if "zerodiv" in (s0, s1):
            continue
        if s0 != "ok" or s1 != "ok":
            chk.fail("analysis raised in swap check", dict(roles=c["roles"], observed=[r0, r1]))
            continue
        a, b = dict(zip(FIELDS, r0)), dict(zip(FIELDS, r1))
        approx = c["roles"][2] is None
        exp = {"control": a["treatment"], "treatment": a["control"], "effect_size": -a["effect_size"],
               "statistic": -a["statistic"], "pvalue": a["pvalue"],
               "effect_size_ci_lower": -a["effect_size_ci_upper"], "effect_size_ci_upper": -a["effect_size_ci_lower"]}
        for f, e in exp.items():
            if not same(b[f], e, approx=approx):
                chk.fail(f"swap of control/treatment (alternative mirrored): field {f} is not as it must be",
                         dict(roles=c["roles"], cell=[c["alt"], c["ev"], c["ut"]], cl=str(c["cl"]), field=f,
                              observed=str(b[f]), expected=str(e),
                              control=[[str(v) for v in r] for r in c["tc"]],
                              treatment=[[str(v) for v in r] for r in c["tt"]]))
                break


def scale_float(chk: Check, n):
    import numpy as np
    import pyarrow as pa
    import tea_tasting as tt
    rng = np.random.default_rng(chk.seed + 17)
    worst = 0.0
    for k in range(n):
        kind = KINDS[k % len(KINDS)]
        alt, ev, ut = CELLS[(k // len(KINDS)) % len(CELLS)]
        nc, nt = int(rng.integers(3, 80)), int(rng.integers(3, 80))
        N = nc + nt
        z = rng.uniform(1, 5, N)
        x = rng.normal(3, 1.5, N) * (z if kind.startswith("ratio") else 1)
        cx = x * rng.uniform(0.5, 1.5) + rng.normal(0, 1, N)
        cz = z + rng.uniform(0, 1, N)
        variant = np.array([0] * nc + [1] * nt)
        roles = {"mean": ("x", None, None, None), "ratio": ("x", "z", None, None), "mean_cov": ("x", None, "cx", None),
                 "ratio_ncov": ("x", "z", "cx", None), "ratio_cov": ("x", "z", "cx", "cz")}[kind]
        cl = float(rng.choice([0.8, 0.9, 0.95, 0.99]))

        def run(xs, zs, control=0, treatment=1, alternative=alt):
            data = pa.table({"variant": variant, "x": xs, "z": zs, "cx": cx, "cz": cz})
            if roles[1] is None and roles[3] is None:
                m = tt.Mean(roles[0], roles[2], alternative=alternative, equal_var=ev, use_t=ut, confidence_level=cl)
            else:
                m = tt.RatioOfMeans(*roles, alternative=alternative, equal_var=ev, use_t=ut, confidence_level=cl)
            return tt.Experiment(m=m).analyze(data, control=control)["m"]

        pow2 = k % 2 == 0
        c = float(2.0 ** rng.integers(-20, 21)) if pow2 else float(10.0 ** rng.uniform(-6, 6))
        if k % 6 == 4:
            c = float(2.0 ** rng.choice([-60, -45, -33, 40, 70]))     # very small / very large units: variances ~1e-36 … 1e+42
        try:
            r0 = run(x, z)
            r1 = run(x * c, z)
            r2 = run(x * c, z * c) if roles[1] is not None else None
        except Exception as ex:  # noqa: BLE001
            chk.fail("Experiment.analyze raised in scaling check", dict(kind=kind, c=c, error=repr(ex)))
            continue
        tol = 1e-11 if pow2 else 1e-8
        chk.case(("scale", kind, alt, ev, ut, pow2), nontrivial=True)
        chk.branch(f"scale:{kind}:{'2^k' if pow2 else 'any c'}")

        def close(a, b):
            nonlocal worst
            if math.isinf(a) or math.isinf(b):
                return a == b
            err = abs(a - b) / (abs(b) + 1e-300)
            worst = max(worst, err)
            return err <= tol or abs(a - b) <= 1e-300

        inv = ("pvalue", "statistic", "rel_effect_size", "rel_effect_size_ci_lower", "rel_effect_size_ci_upper")
        cov = ("control", "treatment", "effect_size", "effect_size_ci_lower", "effect_size_ci_upper")
        for f in inv:
            if not close(getattr(r1, f), getattr(r0, f)):
                chk.fail(f"scaling the metric column by c changed {f}",
                         dict(kind=kind, cell=[alt, ev, ut], c=c, field=f, before=getattr(r0, f), after=getattr(r1, f),
                              seed=chk.seed, case=k))
                break
        for f in cov:
            if not close(getattr(r1, f), c * getattr(r0, f)):
                chk.fail(f"scaling the metric column by c did not scale {f} by c",
                         dict(kind=kind, cell=[alt, ev, ut], c=c, field=f, before=getattr(r0, f), after=getattr(r1, f),
                              seed=chk.seed, case=k))
                break
        if r2 is not None:
            for f in inv + cov:
                if not close(getattr(r2, f), getattr(r0, f)):
                    chk.fail(f"scaling numerator and denominator by the same c changed {f}",
                             dict(kind=kind, cell=[alt, ev, ut], c=c, field=f, before=getattr(r0, f),
                                  after=getattr(r2, f), seed=chk.seed, case=k))
                    break
        # swap, end to end on floats (control=1)
        try:
            data = pa.table({"variant": variant, "x": x, "z": z, "cx": cx, "cz": cz})
            if roles[1] is None and roles[3] is None:
                m2 = tt.Mean(roles[0], roles[2], alternative=MIRROR[alt], equal_var=ev, use_t=ut, confidence_level=cl)
            else:
                m2 = tt.RatioOfMeans(*roles, alternative=MIRROR[alt], equal_var=ev, use_t=ut, confidence_level=cl)
            rs_ = tt.Experiment(m=m2).analyze(data, control=1)["m"]
        except Exception as ex:  # noqa: BLE001
            chk.fail("Experiment.analyze raised in swap check", dict(kind=kind, error=repr(ex)))
            continue
        exp = {"control": r0.treatment, "treatment": r0.control, "effect_size": -r0.effect_size,
               "statistic": -r0.statistic, "pvalue": r0.pvalue,
               "effect_size_ci_lower": -r0.effect_size_ci_upper, "effect_size_ci_upper": -r0.effect_size_ci_lower}
        for f, e in exp.items():
            g = getattr(rs_, f)
            if not (g == e or abs(g - e) <= 1e-9 * (abs(e) + abs(r0.control) * 1e-3 + 1e-12)):
                chk.fail(f"float swap: field {f} is not as it must be",
                         dict(kind=kind, cell=[alt, ev, ut], field=f, observed=g, expected=e, seed=chk.seed, case=k))
                break
    chk.cov["scale_worst_rel_err"] = worst


def main():
    chk = Check(PROP)
    chk.trusted = common.BASE_TRUST + [
        "assumed of the primitives: Prims.Laws (sqrt is the non-negative root: sqrt(c^2 x) = c sqrt x is DERIVED from it; "
        "t/norm symmetric with sf = 1 - cdf) and QuantileLaws; sampled on scipy (C07), not proved",
        "scaling relations are checked on the real code in float mode only (the rational sqrt stand-in is not "
        "homogeneous), with tolerance 1e-11 for c = 2^k and 1e-8 for arbitrary c",
    ]
    chk.assumptions = [">= 2 rows per variant; non-zero denominator means; c > 0"]
    proved = chk.prove()
    have_model = chk.ensure_driver_model()
    n = 10 if chk.tier == "quick" else 60
    cases = [make_case(chk.rng, kind, CELLS[(k * 5 + j) % len(CELLS)], k * 3 + 1)
             for j, kind in enumerate(KINDS) for k in range(n)]
    run_cases(chk, cases, family=1, with_gen=have_model)
    swap_exact(chk, cases)
    scale_float(chk, 60 if chk.tier == "quick" else 1200)
    reuse.analyze_after_mutation(chk, 4 if chk.tier == "quick" else 24, "changing units (and other in-place changes of the data)")
    analysis.narrow_ints(chk, 4 if chk.tier == "quick" else 24, "a column in other units (larger integers of a narrow integer type)")
    analysis.float_far_tail(chk, 12 if chk.tier == "quick" else 120, clauses=("swap",))
    chk.cov["rule"] = ("5 metric kinds x 12 option cells; exact swap (rational data) and float scale/swap end-to-end "
                       "through Experiment.analyze on PyArrow tables, c = 2^-20..2^20 and 10^-6..10^6")
    chk.cov["proved"] = proved

    def extended():
        more = [make_case(chk.rng, kind, CELLS[(k + j) % len(CELLS)], k) for j, kind in enumerate(KINDS) for k in range(40)]
        run_cases(chk, more, family=1, with_gen=False)
        swap_exact(chk, more)
        scale_float(chk, 600)

    chk.finish(extended_search=extended)


def replay(path):
    print(open(path).read()[:4000])
    main()
