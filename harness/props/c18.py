"""C18 — degenerate but valid data gives NaN/inf results, never an exception.

Proof: lean/TeaTasting/Props/C18.lean over the GENERATED safety rendering Gen/Safe.lean (the same
functions read for "can it raise", arithmetic uninterpreted) + the generated utils.div rule.
Tie: translator; its reading of Python's dispatch (a wrapped operand makes the result wrapped; wrapped
division never raises; math.sqrt / math.exp raise as modelled) is validated on the real Float/Int types.
Search: degenerate families on the real code, every available input kind x option cell.
"""
from __future__ import annotations

import itertools
import math

import common
from common import Check

PROP = "C18"
ALTS = ("two-sided", "greater", "less")


def dispatch_semantics(chk: Check):
    """the facts about Python / utils.Float / utils.Int that Basic/Safe.lean builds in"""
    import operator

    import tea_tasting.utils as tu
    W = (tu.Float, tu.Int)
    vals = [tu.Float(2.5), tu.Int(3), tu.Float(0.0), tu.Int(0), tu.Float(float("nan")), tu.Float(float("inf")),
            tu.Float(-1.0), 2.5, 3, 0, 0.0, float("nan"), float("inf"), -2]
    ops = [operator.add, operator.sub, operator.mul, operator.truediv]
    n = 0
    for op in ops:
        for a, b in itertools.product(vals, vals):
            # Basic/Safe.lean `SV.wr`: dispatched to the wrapper iff the left operand is wrapped, or the right one is
            # and the left one does not handle it first (a plain float handles a utils.Int itself)
            wrapped = isinstance(a, W) or (isinstance(b, W) and (isinstance(a, int) or isinstance(b, tu.Float)))
            n += 1
            try:
                r = op(a, b)
                raised = None
            except Exception as ex:  # noqa: BLE001
                r, raised = None, type(ex).__name__
            chk.case(("dispatch", op.__name__, type(a).__name__, repr(a), type(b).__name__, repr(b)), nontrivial=False)
            if wrapped:
                if raised:
                    chk.disagree("an operation with a zero-division-safe operand raised",
                                 dict(op=op.__name__, a=repr(a), b=repr(b), error=raised))
                elif not isinstance(r, W):
                    chk.disagree("an operation with a zero-division-safe operand returned a plain number",
                                 dict(op=op.__name__, a=repr(a), b=repr(b), result=repr(r)))
                elif op is operator.truediv and (b == 0):
                    av = float(a)
                    want_inf = av > 0
                    ok = (math.isinf(float(r)) and float(r) > 0) if want_inf else math.isnan(float(r))
                    if not ok:
                        chk.fail("x/0 does not follow the documented rule (+inf for x > 0, NaN otherwise)",
                                 dict(a=repr(a), b=repr(b), result=repr(r)))
            else:
                zero_div = op is operator.truediv and b == 0
                if zero_div != (raised == "ZeroDivisionError"):
                    chk.disagree("plain division raises iff the divisor is zero — not what Python does here",
                                 dict(a=repr(a), b=repr(b), error=raised))
    for x in (-1.0, -1e-17, float("-inf")):
        try:
            math.sqrt(x)
            chk.disagree("math.sqrt of a negative number did not raise", dict(x=x))
        except ValueError:
            pass
    for x in (0.0, 1e-300, float("inf"), float("nan"), max(-1e-17, 0), max(float("nan"), 0)):
        try:
            math.sqrt(x)
        except ValueError:
            chk.disagree("math.sqrt raised on a non-negative / clamped / NaN argument", dict(x=repr(x)))
    import tea_tasting.metrics.mean as mm
    for x in (1e6, 710.0, float("inf"), float("nan"), -1e6):
        try:
            mm._exp(x)
        except Exception as ex:  # noqa: BLE001
            chk.disagree("mean._exp raised", dict(x=x, error=repr(ex)))
    chk.cov["dispatch_cases"] = n


def families(rng, n):
    """degenerate data sets: (name, dict of columns incl. variant)"""
    import numpy as np
    out = []
    for size in (2, 3, n):
        nc, nt = size, max(2, size - 1)
        N = nc + nt
        variant = np.array([0] * nc + [1] * nt)
        base = rng.normal(5, 2, N)
        scale = float(rng.choice([1.0, 1e-8, 1e8, 1e50, 1e99]))
        x = base * scale
        const = np.full(N, 3.0 * scale)
        zero_mean_c = x.copy()
        zero_mean_c[:nc] -= zero_mean_c[:nc].mean()
        if nc == 2:
            zero_mean_c[:nc] = [scale, -scale]
        cols = {
            "const-both": dict(x=const, y=np.abs(base) + 1, c=base),
            "const-control": dict(x=np.where(variant == 0, 3.0 * scale, x), y=np.abs(base) + 1, c=base),
            "zero-control-mean": dict(x=zero_mean_c, y=np.abs(base) + 1, c=base),
            "zero-denominator-mean": dict(x=x, y=np.where(np.arange(N) % 2 == 0, 1.0, -1.0)[:N] * (1 if N % 2 == 0 else 1), c=base),
            "all-zero-denominator": dict(x=x, y=np.zeros(N), c=base),
            "numerator-prop-denominator": dict(x=2 * (np.abs(base) + 1) * scale, y=np.abs(base) + 1, c=base),
            "covariate-equal-metric": dict(x=x, y=np.abs(base) + 1, c=x.copy()),
            "covariate-affine-metric": dict(x=x, y=np.abs(base) + 1, c=3 * x - 2 * scale),
            "tiny-control-mean": dict(x=np.where(variant == 0, x - x[:nc].mean() + 1e-12 * scale, x),
                                      y=np.abs(base) + 1, c=base),
            "all-zero": dict(x=np.zeros(N), y=np.abs(base) + 1, c=np.zeros(N)),
            # every observation tied WITHIN each variant, at different levels: the standard error is exactly 0
            # (small integers: sums and means are exact in binary64, so the variance is exactly 0, not a rounding residue)
            "const-each-up": dict(x=np.where(variant == 0, 3.0, 5.0), y=np.abs(base) + 1, c=base),
            "const-each-down": dict(x=np.where(variant == 0, 5.0, 3.0), y=np.abs(base) + 1, c=base),
            "integers": dict(x=np.array([1, 1, 2, 2, 3, 3, 4, 4, 5, 5][:N] + [0] * max(0, N - 10)),
                             y=np.ones(N, dtype=int), c=np.array(([0, 1] * N)[:N])),
        }
        for name, d in cols.items():
            out.append((f"{name}/n={size}/scale={scale:g}", dict(variant=variant, **d)))
    return out


def near_zero_sweep(chk: Check):
    """Tiny groups whose control mean approaches zero through a geometric grid: the log-scale half-width of the relative
    interval (standard error / |mean| x quantile) sweeps from tens to millions, through every magnitude at which exp()
    is large, overflows, or is replaced by a shortcut — each must give a result (finite or inf), never an exception."""
    import pyarrow as pa
    import tea_tasting as tt
    for eps in (0.3, 0.1, 0.03, 0.01, 0.005, 0.002, 0.001, 1e-4, 1e-6, 1e-9):
        for sign in (1.0, -1.0):
            data = pa.table({"variant": [0, 0, 1, 1, 1], "x": [sign, -sign * (1 - eps), 2.0, 2.5, 3.5]})
            for alt in ALTS:
                for ev in (False, True):
                    for ut in (False, True):
                        inp = dict(family=f"near-zero-control-mean/eps={eps:g}/sign={sign:g}", cell=[alt, ev, ut],
                                   control=[sign, -sign * (1 - eps)], treatment=[2.0, 2.5, 3.5])
                        chk.case(("near-zero-sweep", eps, sign, alt, ev, ut), nontrivial=False)
                        chk.branch("family:near-zero-control-mean-sweep")
                        try:
                            r = tt.Mean("x", alternative=alt, equal_var=ev, use_t=ut).analyze(data, 0, 1, "variant")
                        except Exception as ex:  # noqa: BLE001
                            chk.fail("analysis raised on degenerate but valid data", dict(input=inp, error=repr(ex)))
                            continue
                        want = r.treatment / r.control - 1
                        if not (r.rel_effect_size == want or abs(r.rel_effect_size - want) <= 1e-9 * abs(want)):
                            chk.fail("rel_effect_size is not treatment/control - 1 although the control mean is non-zero",
                                     dict(input=inp, observed=r.rel_effect_size, expected=want))


def make_inputs(cols):
    import pandas as pd
    import polars as pl
    import pyarrow as pa
    d = {k: list(v) if not hasattr(v, "tolist") else v.tolist() for k, v in cols.items()}
    return {"pandas": pd.DataFrame(d), "polars": pl.DataFrame(d), "polars-lazy": pl.DataFrame(d).lazy(),
            "pyarrow": pa.table(d)}


def search(chk: Check, n_big, kinds, salt=0):
    import numpy as np
    import tea_tasting as tt
    rng = np.random.default_rng(chk.seed + 18 + salt)
    cells = [(a, ev, ut) for a in ALTS for ev in (False, True) for ut in (False, True)]
    for fi, (fname, cols) in enumerate(families(rng, n_big)):
        inputs = make_inputs(cols)
        x = np.asarray(cols["x"], dtype=float)
        v = np.asarray(cols["variant"])
        for ki, kind in enumerate(kinds):
            data = inputs[kind]
            alt, ev, ut = cells[(fi + ki) % len(cells)]
            metrics = {"mean": tt.Mean("x", alternative=alt, equal_var=ev, use_t=ut),
                       "mean_cov": tt.Mean("x", "c", alternative=alt, equal_var=ev, use_t=ut),
                       "ratio": tt.RatioOfMeans("x", "y", alternative=alt, equal_var=ev, use_t=ut),
                       "ratio_cov": tt.RatioOfMeans("x", "y", "c", alternative=alt, equal_var=ev, use_t=ut)}
            inp = dict(family=fname, input=kind, cell=[alt, ev, ut], seed=chk.seed)
            chk.case(("degenerate", fname.split("/")[0], kind, alt, ev, ut))
            chk.branch("family:" + fname.split("/")[0])
            chk.branch("input:" + kind)
            try:
                res = tt.Experiment(metrics).analyze(data)
            except Exception as ex:  # noqa: BLE001
                # find the offending metric
                bad = {}
                for name, m in metrics.items():
                    try:
                        tt.Experiment({name: m}).analyze(data)
                    except Exception as ex2:  # noqa: BLE001
                        bad[name] = repr(ex2)
                chk.fail("analysis raised on degenerate but valid data",
                         dict(input=inp, error=repr(ex), metrics=bad,
                              data={k: np.asarray(c).tolist() for k, c in cols.items()}))
                continue
            # well-defined fields keep their exact values (Mean without covariate: plain sample means)
            r = res["mean"]
            mc, mt = float(x[v == 0].mean()), float(x[v == 1].mean())
            tol = 1e-9 * (abs(mc) + abs(mt)) + 1e-300
            if not (abs(r.control - mc) <= tol and abs(r.treatment - mt) <= tol
                    and abs(r.effect_size - (mt - mc)) <= 4 * tol):
                chk.fail("means / effect size are not the sample values on degenerate data",
                         dict(input=inp, observed=[r.control, r.treatment, r.effect_size], expected=[mc, mt, mt - mc]))
            if r.control != 0:
                want = r.treatment / r.control - 1
                if not (r.rel_effect_size == want or abs(r.rel_effect_size - want) <= 1e-9 * abs(want)
                        or (math.isnan(want) and math.isnan(r.rel_effect_size))):
                    chk.fail("rel_effect_size is not treatment/control - 1 although the control mean is non-zero",
                             dict(input=inp, observed=r.rel_effect_size, expected=want))
            else:
                want_inf = r.treatment > 0
                got = r.rel_effect_size
                if not ((want_inf and math.isinf(got) and got > 0) or (not want_inf and math.isnan(got))):
                    chk.fail("division by an exactly zero control mean does not follow the documented rule",
                             dict(input=inp, treatment=r.treatment, rel_effect_size=got))
            # a statistic whose standard error is EXACTLY zero follows the division rule: x/0 = +inf for x > 0, NaN otherwise
            if fname.startswith("const-each") and r.control != r.treatment:
                want_inf = r.effect_size > 0
                got = float(r.statistic)
                if not ((want_inf and math.isinf(got) and got > 0) or (not want_inf and math.isnan(got))):
                    chk.fail("with a standard error of exactly zero the statistic does not follow the documented division "
                             "rule (x/0 = +inf for x > 0, NaN otherwise)",
                             dict(input=inp, effect_size=r.effect_size, statistic=got))
            if len(chk.cov["samples"]) < 5 and ki == 0:
                chk.sample(dict(**inp, mean=[r.control, r.treatment, r.pvalue], ratio_pvalue=res["ratio"].pvalue))
        # the same data handed over as a dict of hand-built Aggregates holding plain Python floats (aggregated input is
        # a documented input kind of analyze)
        A = tt.aggr.Aggregates
        names = ["x", "y", "c"]
        aggs = {}
        for g in (0, 1):
            sel = {k: np.asarray(cols[k], dtype=float)[v == g] for k in names}
            ng = int((v == g).sum())
            aggs[g] = A(ng, {k: float(a.mean()) for k, a in sel.items()},
                        {k: float(a.var(ddof=1)) for k, a in sel.items()},
                        {(a_, b_): float(np.cov(sel[a_], sel[b_], ddof=1)[0, 1]) for i_, a_ in enumerate(names)
                         for b_ in names[i_ + 1:]})
        alt, ev, ut = cells[fi % len(cells)]
        chk.case(("degenerate", fname.split("/")[0], "aggregates-dict", alt, ev, ut))
        chk.branch("input:aggregates-dict")
        with np.errstate(all="ignore"):
            for name, m in (("mean", tt.Mean("x", alternative=alt, equal_var=ev, use_t=ut)),
                            ("mean_cov", tt.Mean("x", "c", alternative=alt, equal_var=ev, use_t=ut)),
                            ("ratio", tt.RatioOfMeans("x", "y", alternative=alt, equal_var=ev, use_t=ut)),
                            ("ratio_cov", tt.RatioOfMeans("x", "y", "c", alternative=alt, equal_var=ev, use_t=ut))):
                try:
                    m.analyze(aggs, 0, 1)
                    # the other routes to the same analysis: the two Aggregates handed to analyze_aggregates directly, and
                    # new Aggregates built from the values read back from objects that were analysed before
                    m.analyze_aggregates(aggs[0], aggs[1])
                    again = {g: A(aggs[g].count(), {k_: aggs[g].mean(k_) for k_ in names},
                                  {k_: aggs[g].var(k_) for k_ in names},
                                  {(a_, b_): aggs[g].cov(a_, b_) for i_, a_ in enumerate(names) for b_ in names[i_ + 1:]})
                             for g in (0, 1)}
                    m.analyze(again, 0, 1)
                    m.analyze_aggregates(again[0], again[1])
                    # ... and the COUNT read back from an analysed object next to freshly computed plain-float statistics
                    mixed = {g: A(aggs[g].count(), {k_: float(aggs[g].mean(k_)) for k_ in names},
                                  {k_: float(aggs[g].var(k_)) for k_ in names},
                                  {(a_, b_): float(aggs[g].cov(a_, b_)) for i_, a_ in enumerate(names) for b_ in names[i_ + 1:]})
                             for g in (0, 1)}
                    m.analyze(mixed, 0, 1)
                except Exception as ex:  # noqa: BLE001
                    chk.fail("analysis raised on degenerate but valid data",
                             dict(input=dict(family=fname, input="dict of hand-built Aggregates (plain floats)",
                                             cell=[alt, ev, ut], seed=chk.seed), metric=name, error=repr(ex),
                                  aggregates={g: repr(a) for g, a in aggs.items()}))
                    break


def main():
    chk = Check(PROP)
    chk.trusted = common.BASE_TRUST + [
        "Basic/Safe.lean: which operations can raise and how wrappedness propagates (validated on the real Float/Int types "
        "each run: coverage.dispatch_cases); scipy's frozen distributions never raise on NaN/inf parameters (assumed); "
        "KeyError for statistics a metric did not request is outside the model (F5, DESIGN section 7)",
        "the theorem is about the aggregated analysis (analyze_aggregates and below); that reading the aggregates from a "
        "back end does not raise on degenerate data is exercised by the search, not proved",
    ]
    chk.assumptions = ["at least two rows per variant, finite values with representable squares (|x| < 1e100)"]
    proved = chk.prove()
    dispatch_semantics(chk)
    kinds = ["pandas", "polars", "polars-lazy", "pyarrow"]
    search(chk, 9 if chk.tier == "quick" else 40, kinds if chk.tier == "thorough" else kinds)
    near_zero_sweep(chk)
    chk.cov["rule"] = ("11 degenerate families (constant columns, zero control mean, zero denominator mean/values, numerator "
                       "proportional to denominator, covariate equal to / affine in the metric, control mean within rounding of "
                       "zero, all zero, integer columns) x group sizes {2,3,n} x magnitudes {1,1e-8,1e8,1e50,1e99} x 4 input "
                       "kinds x rotating option cells x {Mean, Mean+cov, RatioOfMeans, RatioOfMeans+cov}; plus a sweep of control means "
                       "approaching zero (relative distance 0.3 .. 1e-9, both signs) x all 12 option cells")
    chk.cov["proved"] = proved

    def extended():
        for s in range(3):
            search(chk, 25, kinds, salt=1000 * (s + 1))

    chk.finish(extended_search=extended)


def replay(path):
    print(open(path).read()[:4000])
    main()
