"""C05 — RatioOfMeans is the delta method: the t/Z test on linearised observations."""
from __future__ import annotations

from fractions import Fraction as F

import analysis
import common
from analysis import CELLS, FIELDS, NAMES, make_case, real_analyze, run_cases, same
from common import Check
from props.c06 import aggs_of

PROP = "C05"


def build(chk, n, max_rows=14):
    return [make_case(chk.rng, "ratio", CELLS[k % len(CELLS)], k, max_rows) for k in range(n)]


def equivalences(chk: Check, n):
    """denominator absent / column of ones == Mean;  Mean(v, c) == RatioOfMeans(v, None, c, None)"""
    import stubs
    import tea_tasting as tt
    rng = chk.rng
    cases = [make_case(rng, "mean_cov" if k % 2 else "mean", CELLS[k % len(CELLS)], k) for k in range(n)]
    tabs = []
    for c in cases:
        for t in (c["tc"], c["tt"]):
            tabs.append([[r[0], F(1), r[2], r[3]] for r in t])     # c1 := column of ones
    ag = aggs_of(tabs)
    for k, c in enumerate(cases):
        ac, at = ag[2 * k], ag[2 * k + 1]
        cov = c["roles"][2]
        variants = {
            "Mean": dict(c, role_kind="mean_cov" if cov else "mean", roles=("c0", None, cov, None)),
            "RatioOfMeans(x, None, c, None)": dict(c, role_kind="ratio_x", roles=("c0", None, cov, None)),
            "RatioOfMeans(x, ones, c, None)": dict(c, role_kind="ratio_x", roles=("c0", "c1", cov, None)),
        }
        res = {name: real_analyze(v, ac, at) for name, v in variants.items()}
        chk.case(("equiv", k, bool(cov)))
        chk.branch("equivalence:" + ("with-covariate" if cov else "plain"))
        base = res["Mean"]
        for name, (st, r) in res.items():
            if st == "zerodiv" or base[0] == "zerodiv":
                continue
            if st != "ok" or base[0] != "ok":
                chk.fail(f"{name} raised", dict(observed=[base, (st, r)], roles=c["roles"]))
                continue
            for f, x, y in zip(FIELDS, base[1], r):
                # same aggregates, same arithmetic up to multiplication/division by the exact constant 1
                if not same(x, y, approx=True, rel=1e-12):
                    chk.fail(f"{name} differs from Mean in field {f}",
                             dict(field=f, mean=str(x), other=str(y), covariate=cov,
                                  cell=[c["alt"], c["ev"], c["ut"]], cl=str(c["cl"]),
                                  control=[[str(v) for v in r_] for r_ in tabs[2 * k]],
                                  treatment=[[str(v) for v in r_] for r_ in tabs[2 * k + 1]]))
                    break


def main():
    chk = Check(PROP)
    chk.trusted = common.BASE_TRUST + [
        "assumed of the primitives (hypothesis Prims.QuantileLaws): isf q = -ppf q on (0,1), exp(-x) = 1/exp x; "
        "proved for the rational stand-ins (Props/StubLaws.lean)",
        "exact mode substitutions (utils.numeric passthrough; math/scipy rebound inside metrics.mean); without a "
        "covariate the code's own `1 / 1` is a float, so those runs are compared to 1e-9 relative, not exactly",
    ]
    chk.assumptions = [">= 2 rows per variant; non-zero denominator means per variant and pooled; "
                       "confidence_level in (0,1)"]
    proved = chk.prove()
    have_model = chk.ensure_driver_model()
    n = 48 if chk.tier == "quick" else 480
    run_cases(chk, build(chk, n), family=1, with_gen=have_model)
    if chk.tier == "thorough":
        run_cases(chk, build(chk, 96), family=2, with_gen=have_model, label="[family 2] ")
    equivalences(chk, 24 if chk.tier == "quick" else 240)
    chk.cov["rule"] = ("random rational numerator/denominator data (2..28 rows per variant, balanced and 1:many, "
                       "any correlation), all 12 option cells, random confidence levels; equivalences Mean / "
                       "RatioOfMeans(None) / RatioOfMeans(ones) with and without covariate")
    chk.cov["proved"] = proved

    def extended():
        run_cases(chk, build(chk, 300), family=1, with_gen=False)
        run_cases(chk, build(chk, 60), family=2, with_gen=False, label="[family 2] ")

    chk.finish(extended_search=extended)


def replay(path):
    print(open(path).read()[:4000])
    main()
