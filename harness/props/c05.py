"""C05 — RatioOfMeans is the delta method: the t/Z test on linearised observations."""
from __future__ import annotations

from fractions import Fraction as F

import analysis
import common
import reuse
from analysis import CELLS, FIELDS, NAMES, make_case, real_analyze, run_cases, same
from common import Check
from props.c06 import aggs_of

PROP = "C05"


def build(chk, n, max_rows=14):
    return [make_case(chk.rng, "ratio", CELLS[k % len(CELLS)], k, max_rows) for k in range(n)]


def equivalences(chk: Check, n):
    """denominator absent / column of ones == Mean;  Mean(v, c) == RatioOfMeans(v, None, c, None)"""
    import stubs
    import tea_tasting as tt
    rng = chk.rng
    cases = [make_case(rng, "mean_cov" if k % 2 else "mean", CELLS[k % len(CELLS)], k) for k in range(n)]
    tabs = []
    for c in cases:
        for t in (c["tc"], c["tt"]):
            tabs.append([[r[0], F(1), r[2], r[3]] for r in t])     # c1 := column of ones
    ag = aggs_of(tabs)
    for k, c in enumerate(cases):
        ac, at = ag[2 * k], ag[2 * k + 1]
        cov = c["roles"][2]
        variants = {
            "Mean": dict(c, role_kind="mean_cov" if cov else "mean", roles=("c0", None, cov, None)),
            "RatioOfMeans(x, None, c, None)": dict(c, role_kind="ratio_x", roles=("c0", None, cov, None)),
            "RatioOfMeans(x, ones, c, None)": dict(c, role_kind="ratio_x", roles=("c0", "c1", cov, None)),
        }
        res = {name: real_analyze(v, ac, at) for name, v in variants.items()}
        chk.case(("equiv", k, bool(cov)))
        chk.branch("equivalence:" + ("with-covariate" if cov else "plain"))
        base = res["Mean"]
        for name, (st, r) in res.items():
            if st == "zerodiv" or base[0] == "zerodiv":
                continue
            if st != "ok" or base[0] != "ok":
                chk.fail(f"{name} raised", dict(observed=[base, (st, r)], roles=c["roles"]))
                continue
            for f, x, y in zip(FIELDS, base[1], r):
                # same aggregates, same arithmetic up to multiplication/division by the exact constant 1
                if not same(x, y, approx=True, rel=1e-12):
                    chk.fail(f"{name} differs from Mean in field {f}",
                             dict(field=f, mean=str(x), other=str(y), covariate=cov,
                                  cell=[c["alt"], c["ev"], c["ut"]], cl=str(c["cl"]),
                                  control=[[str(v) for v in r_] for r_ in tabs[2 * k]],
                                  treatment=[[str(v) for v in r_] for r_ in tabs[2 * k + 1]]))
                    break


def float_linearised(chk: Check, n):
    """The unmodified code on floats, raw data through Experiment.analyze, against the two-sample test of the
    linearised observations written with numpy/scipy — including variants whose NUMERATOR mean is exactly zero
    (inside C05's quantifier: only the denominator means must be non-zero).  With a zero mean the relative fields
    are degenerate (C18) and only the absolute fields are compared."""
    import math

    import numpy as np
    import pyarrow as pa
    import scipy.stats as st
    import tea_tasting as tt
    rng = np.random.default_rng(chk.seed + 55)
    for k in range(n):
        alt, ev, ut = CELLS[k % len(CELLS)]
        cl = float(rng.choice([0.8, 0.9, 0.95, rng.uniform(0.1, 0.99)]))
        nc, nt = int(rng.integers(3, 40)), int(rng.integers(3, 40))
        zero = ("none", "treatment", "control", "treatment")[k % 4]
        xs, ys = [], []
        for g, m in (("control", nc), ("treatment", nt)):
            y = rng.integers(1, 6, m).astype(float)
            x = rng.integers(-6, 9, m).astype(float) + (y if k % 2 else 0)
            if k % 5 == 4:
                y = y * 1e-7          # a denominator in tiny units (variance ~1e-14): the delta-method terms are all still there
            if zero == g:
                x[-1] -= x.sum()                     # integer data: the sum is exactly 0
                if len(set(x)) < 2:
                    x[0] += 1
                    x[1] -= 1
            elif x.sum() == 0:
                x[0] += 1
            xs.append(x)
            ys.append(y)
        if k % 8 == 4 and zero == "none":
            # numerator and denominator at a level huge next to their spread (raw second moments cancel here)
            xs = [x + 9e8 for x in xs]
            ys = [y + 4e8 for y in ys]
        data = pa.table({"variant": [0] * nc + [1] * nt, "x": np.concatenate(xs), "y": np.concatenate(ys)})
        route = ("pyarrow", "polars-lazy", "pandas", "polars")[(k // 4) % 4]
        if route != "pyarrow":
            import polars as pl
            data = {"polars-lazy": lambda t: pl.from_arrow(t).lazy(), "pandas": lambda t: t.to_pandas(),
                    "polars": lambda t: pl.from_arrow(t)}[route](data)
        try:
            if k % 3 == 2:
                # SOME options explicit (among them alpha, which the analysis does not use), the confidence level from
                # the configuration in force: each option is resolved on its own
                with tt.config_context(confidence_level=cl, alpha=0.2):
                    metric = tt.RatioOfMeans("x", "y", alternative=alt, equal_var=ev, use_t=ut, alpha=0.01)
            elif k % 2:
                # explicit options win over the global configuration in force at construction
                with tt.config_context(alternative=[a for a in ("two-sided", "greater", "less") if a != alt][0],
                                       equal_var=not ev, use_t=not ut, confidence_level=0.5 if cl != 0.5 else 0.9):
                    metric = tt.RatioOfMeans("x", "y", alternative=alt, equal_var=ev, use_t=ut, confidence_level=cl)
            else:
                metric = tt.RatioOfMeans("x", "y", alternative=alt, equal_var=ev, use_t=ut, confidence_level=cl)
            res = tt.Experiment(m=metric).analyze(data)["m"]
        except Exception as ex:  # noqa: BLE001
            chk.fail("Experiment.analyze raised on float numerator/denominator data",
                     dict(cell=[alt, ev, ut], zero_numerator_mean=zero, error=repr(ex),
                          control=[xs[0].tolist(), ys[0].tolist()], treatment=[xs[1].tolist(), ys[1].tolist()]))
            continue
        lin = []
        for x, y in zip(xs, ys):
            r = x.mean() / y.mean()
            lin.append(r + (x - r * y) / y.mean())
        lc, lt = lin
        mc, mt, vc, vt = lc.mean(), lt.mean(), lc.var(ddof=1), lt.var(ddof=1)
        if ev:
            sp = ((nc - 1) * vc + (nt - 1) * vt) / (nc + nt - 2)
            se, df = math.sqrt(sp * (1 / nc + 1 / nt)), nc + nt - 2
        else:
            se = math.sqrt(vc / nc + vt / nt)
            df = (vc / nc + vt / nt) ** 2 / ((vc / nc) ** 2 / (nc - 1) + (vt / nt) ** 2 / (nt - 1))
        dist = st.t(df) if ut else st.norm()
        d = mt - mc
        z = d / se
        if alt == "greater":
            exp = dict(pvalue=dist.sf(z), effect_size_ci_lower=d - se * dist.ppf(cl), effect_size_ci_upper=math.inf)
        elif alt == "less":
            exp = dict(pvalue=dist.cdf(z), effect_size_ci_lower=-math.inf, effect_size_ci_upper=d + se * dist.ppf(cl))
        else:
            h = se * dist.ppf((1 + cl) / 2)
            exp = dict(pvalue=2 * dist.sf(abs(z)), effect_size_ci_lower=d - h, effect_size_ci_upper=d + h)
        exp.update(statistic=z, control=xs[0].mean() / ys[0].mean(), treatment=xs[1].mean() / ys[1].mean(), effect_size=d)
        if zero == "none":
            exp.update(rel_effect_size=exp["treatment"] / exp["control"] - 1)
        chk.case(("float-linearised", alt, ev, ut, zero, nc, nt))
        chk.branch("float-linearised:zero-numerator-mean=" + zero)
        for f, e in exp.items():
            g = float(getattr(res, f))
            if math.isinf(e) or math.isinf(g) or math.isnan(g):
                ok = e == g
            else:
                ok = abs(g - e) <= 1e-7 * (abs(e) + abs(mc) + abs(mt) + se)
            if not ok:
                chk.fail(f"float end-to-end: field {f} differs from the two-sample test of the linearised observations",
                         dict(cell=[alt, ev, ut], confidence_level=cl, zero_numerator_mean=zero, field=f, observed=g,
                              expected=e, control=[xs[0].tolist(), ys[0].tolist()],
                              treatment=[xs[1].tolist(), ys[1].tolist()]))
                break


def equivalence_under_config(chk: Check, n):
    """Mean(value[, covariate]) == RatioOfMeans(value, None, covariate, None) also when the options come from the
    global configuration (nothing passed explicitly), and both equal the metric built with those options spelled out."""
    import numpy as np
    import pyarrow as pa
    import tea_tasting as tt
    rng = np.random.default_rng(chk.seed + 77)
    for k in range(n):
        alt, ev, ut = CELLS[k % len(CELLS)]
        cl = float(rng.choice([0.5, 0.8, 0.9, 0.99]))
        nc, nt = int(rng.integers(5, 60)), int(rng.integers(5, 60))
        x = rng.normal(3, 1, nc + nt)
        c = 0.6 * x + rng.normal(0, 1, nc + nt)
        data = pa.table({"variant": [0] * nc + [1] * nt, "x": x, "c": c})
        cov = "c" if k % 2 else None
        opts = dict(alternative=alt, equal_var=ev, use_t=ut, confidence_level=cl)
        with tt.config_context(**opts):
            a = tt.Mean("x", cov)
            b = tt.RatioOfMeans("x", None, cov, None)
        spelled = tt.Mean("x", cov, **opts)
        chk.case(("equiv-config", alt, ev, ut, cl, bool(cov)))
        chk.branch("equivalence:under-config")
        try:
            ra, rb, rs_ = (m.analyze(data, 0, 1, "variant") for m in (a, b, spelled))
        except Exception as ex:  # noqa: BLE001
            chk.fail("analysis raised", dict(options=opts, error=repr(ex)))
            continue
        for name, other in (("RatioOfMeans(value, None, covariate, None)", rb), ("Mean with the options spelled out", rs_)):
            for f in FIELDS:
                u, v = float(getattr(ra, f)), float(getattr(other, f))
                if not (u == v or (u != u and v != v)):
                    chk.fail(f"Mean built under config_context differs from {name} in field {f}",
                             dict(options=opts, covariate=cov, field=f, mean=u, other=v, n=[nc, nt], seed=chk.seed))
                    break


def main():
    chk = Check(PROP)
    chk.trusted = common.BASE_TRUST + [
        "assumed of the primitives (hypothesis Prims.QuantileLaws): isf q = -ppf q on (0,1), exp(-x) = 1/exp x; "
        "proved for the rational stand-ins (Props/StubLaws.lean)",
        "exact mode substitutions (utils.numeric passthrough; math/scipy rebound inside metrics.mean); without a "
        "covariate the code's own `1 / 1` is a float, so those runs are compared to 1e-9 relative, not exactly",
    ]
    chk.assumptions = [">= 2 rows per variant; non-zero denominator means per variant and pooled; "
                       "confidence_level in (0,1)"]
    proved = chk.prove()
    have_model = chk.ensure_driver_model()
    n = 48 if chk.tier == "quick" else 480
    run_cases(chk, build(chk, n), family=1, with_gen=have_model)
    if chk.tier == "thorough":
        run_cases(chk, build(chk, 96), family=2, with_gen=have_model, label="[family 2] ")
    equivalences(chk, 24 if chk.tier == "quick" else 240)
    float_linearised(chk, 36 if chk.tier == "quick" else 360)
    analysis.narrow_ints(chk, 4 if chk.tier == "quick" else 24, "the delta-method test of the raw observations")
    reuse.analyze_after_mutation(chk, 4 if chk.tier == "quick" else 16, "the delta-method test is not the one of the rows the frame holds")
    reuse.aggregates_object_reuse(chk, 6 if chk.tier == "quick" else 48, "the delta-method test is not the one of the statistics handed over")
    equivalence_under_config(chk, 24 if chk.tier == "quick" else 240)
    chk.cov["rule"] = ("random rational numerator/denominator data (2..28 rows per variant, balanced and 1:many, "
                       "any correlation), all 12 option cells, random confidence levels; equivalences Mean / "
                       "RatioOfMeans(None) / RatioOfMeans(ones) with and without covariate")
    chk.cov["proved"] = proved

    def extended():
        run_cases(chk, build(chk, 300), family=1, with_gen=False)
        run_cases(chk, build(chk, 60), family=2, with_gen=False, label="[family 2] ")
        float_linearised(chk, 120)

    chk.finish(extended_search=extended)


def replay(path):
    print(open(path).read()[:4000])
    main()
