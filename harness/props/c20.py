"""C20 — synthetic datasets are reproducible and internally consistent.

Proof: lean/TeaTasting/Props/C20.lean over Model/Datasets.lean (RNG parameters in their domains for all valid
generator parameters, calibration identities, users invariants, sessions = explosion of the users).
Tie: every numpy Generator call of the REAL make_users_data / make_sessions_data run is recorded (method,
parameters, output); DriverDatasets.lean recomputes the distribution parameters and every column from the recorded
draws.  Search: invariants, determinism across return types, users/sessions agreement and a calibration band on
the real outputs for many parameter combinations and seeds.
"""
from __future__ import annotations

import contextlib
import math
import warnings
from fractions import Fraction as F

import common
from common import Check, Driver, rs

PROP = "C20"


class RecGen:
    def __init__(self, gen, log):
        self._g, self._log = gen, log

    def _rec(self, name, kw):
        import numpy as np
        out = getattr(self._g, name)(**kw)
        self._log.append((name, {k: np.array(v, copy=True) if hasattr(v, "shape") else v for k, v in kw.items()},
                          np.array(out, copy=True)))
        return out

    def binomial(self, **kw):
        return self._rec("binomial", kw)

    def poisson(self, **kw):
        return self._rec("poisson", kw)

    def beta(self, **kw):
        return self._rec("beta", kw)

    def lognormal(self, **kw):
        return self._rec("lognormal", kw)

    def __getattr__(self, name):
        raise AttributeError(f"unrecorded Generator method {name}")


@contextlib.contextmanager
def record_rng():
    import numpy as np
    log = []
    orig = np.random.default_rng

    def wrapper(*a, **k):
        return RecGen(orig(*a, **k), log)
    np.random.default_rng = wrapper
    try:
        yield log
    finally:
        np.random.default_rng = orig


def rand_params(rng, i):
    avg = rng.choice([1.5, 2, 3, 4.5])
    su = rng.choice([0.0, 0.0, 0.1, -0.2, 0.5, round(1 / avg - 1 + 0.05, 3)])
    aops = rng.choice([0.05, 0.25, 0.5, 0.9])
    ou_hi = (1 + su) / aops - 1
    ou = rng.choice([0.1, 0.0, -0.3, -0.9, min(0.5, ou_hi * 0.9), ou_hi * 0.95])
    # strictly inside the domain: exactly ON the bound (e.g. su=-0.45, aops=0.5 -> bound 0.1 = candidate 0.1) the
    # parameters are mathematically invalid and only float rounding in _check_params lets them through
    if not (-1 < ou < ou_hi - 1e-6):
        ou = 0.0 if 0.0 < ou_hi - 1e-6 else ou_hi - 0.01
    ru = rng.choice([0.1, 0.0, -0.5, 0.7])
    ratio = rng.choice([1, 1, 0.5, 2, 0.1, 3.7])
    arpo = rng.choice([10, 1, 123.4])
    p = dict(ratio=ratio, sessions_uplift=su, orders_uplift=ou, revenue_uplift=ru, avg_sessions=avg,
             avg_orders_per_session=aops, avg_revenue_per_order=arpo)
    # every parameter is documented `float | int`: an integral value may arrive as a Python int (0 rather than 0.0)
    return {k: (int(v) if float(v).is_integer() and rng.random() < 0.5 else v) for k, v in p.items()}


def params_wire(n, p, cov):
    return (f"{n} {rs(F(p['ratio']))} {rs(F(p['sessions_uplift']))} {rs(F(p['orders_uplift']))} "
            f"{rs(F(p['revenue_uplift']))} {rs(F(p['avg_sessions']))} {rs(F(p['avg_orders_per_session']))} "
            f"{rs(F(p['avg_revenue_per_order']))} {int(cov)}")


def lst(xs, conv=str):
    xs = list(xs)
    return f"{len(xs)} " + " ".join(conv(x) for x in xs)


def fr(x):
    return rs(F(float(x)))


def close(a, b, rel=1e-9, abs_=1e-12):
    return abs(float(a) - float(b)) <= rel * max(abs(float(a)), abs(float(b))) + abs_


def correspondence(chk: Check, n):
    import numpy as np
    import tea_tasting as tt
    rng = chk.rng
    jobs = []
    for i in range(n):
        p = rand_params(rng, i)
        cov = i % 2 == 0
        explode = i % 3 == 0
        nu = rng.randint(10, 40)
        seed = rng.randint(0, 10**6)
        f = tt.make_sessions_data if explode else tt.make_users_data
        with record_rng() as log:
            try:
                data = f(covariates=cov, seed=seed, n_users=nu, **p)
            except Exception as ex:  # noqa: BLE001
                chk.fail("the generator raised on valid parameters",
                         dict(function=f.__name__, params=p, covariates=cov, seed=seed, n_users=nu, error=repr(ex)))
                continue
        jobs.append((p, cov, explode, nu, seed, data, log))
    lines = []
    for p, cov, explode, nu, seed, data, log in jobs:
        calls = [c[0] for c in log]
        want = ["binomial", "poisson", "beta", "binomial", "lognormal"] + (["poisson", "binomial", "lognormal"] if cov else [])
        if calls != want:
            chk.disagree("sequence of Generator calls differs from the model's", dict(calls=calls, expected=want))
            lines.append(None)
            continue
        empty = "0"
        lines.append(f"make {int(explode)} {params_wire(nu, p, cov)} {lst(log[0][2])} {lst(log[1][2])} {lst(log[2][2], fr)} "
                     f"{lst(log[3][2])} {lst(log[4][2], fr)} "
                     + (f"{lst(log[5][2])} {lst(log[6][2])} {lst(log[7][2], fr)}" if cov else f"{empty} {empty} {empty}"))
    out = Driver("DriverDatasets.lean").ask([x for x in lines if x is not None])
    it = iter(out)
    for (p, cov, explode, nu, seed, data, log), line in zip(jobs, lines):
        if line is None:
            continue
        mo = next(it)
        parts = [x.strip() for x in mo.split("|")]
        inp = dict(params=p, covariates=cov, explode=explode, n_users=nu, seed=seed)
        chk.case(("model", explode, cov, nu, tuple(sorted(p.items()))))
        chk.branch("fn:" + ("sessions" if explode else "users"))
        chk.branch("covariates:" + str(cov))
        if parts[0] != "valid=1":
            chk.disagree("the model's Valid rejects parameters the real _check_params accepts", dict(input=inp))
        variant = log[0][2]
        # RNG parameters as the model computes them vs as recorded
        bad = None
        if not close(F(parts[1]), log[0][1]["p"]):
            bad = ("variant p", parts[1], log[0][1]["p"])
        lam = [F(x) for x in parts[2].split()]
        ab = [F(x) for x in parts[3].split()]
        arg = [F(x) for x in parts[4].split()]
        for u in range(nu):
            v = int(variant[u])
            if not close(lam[v], log[1][1]["lam"][u]):
                bad = ("sessions lam", float(lam[v]), log[1][1]["lam"][u])
            if not close(ab[2 * v], log[2][1]["a"][u]) or not close(ab[2 * v + 1], log[2][1]["b"][u]):
                bad = ("beta a/b", [float(ab[2 * v]), float(ab[2 * v + 1])], [log[2][1]["a"][u], log[2][1]["b"][u]])
        users = data["user"].to_numpy()
        sig = float(log[4][1]["sigma"])
        for j in range(len(users)):
            v = int(variant[users[j]])
            mean = float(np.asarray(log[4][1]["mean"])[j])
            if not close(math.exp(mean + sig * sig / 2), arg[v], rel=1e-9):
                bad = ("lognormal mean", math.exp(mean + sig * sig / 2), float(arg[v]))
            nn = np.asarray(log[3][1]["n"])[j]
            if not close(np.asarray(log[3][1]["p"])[j], log[2][2][users[j]]):
                bad = ("orders p is not the user's Beta draw", j, None)
        if bad:
            chk.disagree("a distribution parameter handed to the RNG differs from the model's", dict(input=inp, which=repr(bad)))
            continue
        if cov:
            cl = [f"covp {params_wire(nu, p, cov)} {fr(log[2][2][users[j]])} {int(variant[users[j]])}" for j in range(len(users))]
            cps = Driver("DriverDatasets.lean").ask(cl)
            for j, t in enumerate(cps):
                if not close(F(t), np.asarray(log[6][1]["p"])[j]):
                    chk.disagree("covariate binomial p differs from the model's min(ops / mult, 1)",
                                 dict(input=inp, row=j, impl=float(np.asarray(log[6][1]["p"])[j]), model=float(F(t))))
                    break
        # every column
        rows = [r.split(",") for r in parts[5].split(";")] if parts[5] else []
        cols = {k: data[k].to_numpy() for k in data.column_names}
        if len(rows) != data.num_rows:
            chk.disagree("row count differs from the model's", dict(input=inp, impl=data.num_rows, model=len(rows)))
            continue
        for j, r in enumerate(rows):
            ok = (int(r[0]) == cols["user"][j] and int(r[1]) == cols["variant"][j] and int(r[2]) == cols["sessions"][j]
                  and int(r[3]) == cols["orders"][j] and abs(float(F(r[4])) - cols["revenue"][j]) <= 0.005 + 1e-9)
            if ok and cov:
                ok = (close(F(r[5]), cols["sessions_covariate"][j]) and close(F(r[6]), cols["orders_covariate"][j])
                      and abs(float(F(r[7])) - cols["revenue_covariate"][j]) <= 0.005 + 1e-9)
            if not ok:
                chk.disagree("a row differs from the model's makeData on the recorded draws",
                             dict(input=inp, row=j, model=r, impl={k: repr(cols[k][j]) for k in cols}))
                break
        if len(chk.cov["samples"]) < 2:
            chk.sample(dict(kind="recorded run", **{k: str(v) for k, v in inp.items()}, calls=[c[0] for c in log],
                            rows=data.num_rows))


def invariants(chk: Check, n):
    import numpy as np
    import tea_tasting as tt
    rng = chk.rng
    for i in range(n):
        p = rand_params(rng, i)
        if i % 4 == 0:
            # parameters left at their DEFAULTS are parameters too: "the same parameters" for users and sessions data
            # includes the ones nobody passed (all defaults, or only ratio / revenue parameters given — any such mix is
            # valid because the stock defaults of the remaining ones are)
            keep = [(), ("ratio",), ("ratio", "revenue_uplift", "avg_revenue_per_order")][(i // 4) % 3]
            p = {k: v for k, v in p.items() if k in keep}
        cov = i % 2 == 1
        nu = rng.choice([10, 11, 50, 400, 3000])
        if i == n - 1:
            # very many sessions per user and very few orders: per-session averages far below one cent / one hundredth of
            # an order — "zero without orders" must survive whatever rounding the generator applies
            p, cov, nu = dict(avg_sessions=400, avg_orders_per_session=0.05), True, (400 if n >= 100 else 40)
        seed = rng.randint(0, 10**6)
        inp = dict(params=p, covariates=cov, n_users=nu, seed=seed)
        chk.case(("invariants", cov, nu, tuple(sorted(p.items()))))
        chk.branch("invariants")
        try:
            res = {}
            for rt in ("arrow", "pandas", "polars"):
                res[rt] = (tt.make_users_data(covariates=cov, seed=seed, n_users=nu, return_type=rt, **p),
                           tt.make_sessions_data(covariates=cov, seed=seed, n_users=nu, return_type=rt, **p))
        except Exception as ex:  # noqa: BLE001
            chk.fail("the generator raised on valid parameters", dict(input=inp, error=repr(ex)))
            continue

        def cols_of(d):
            if hasattr(d, "column_names"):
                return {k: d[k].to_numpy() for k in d.column_names}
            if hasattr(d, "to_dict") and not hasattr(d, "get_column"):
                return {k: d[k].to_numpy() for k in d.columns}
            return {k: d.get_column(k).to_numpy() for k in d.columns}
        u, s = cols_of(res["arrow"][0]), cols_of(res["arrow"][1])
        want_cols = ["user", "variant", "sessions", "orders", "revenue"] + (
            ["sessions_covariate", "orders_covariate", "revenue_covariate"] if cov else [])
        for rt in ("pandas", "polars"):
            for k, ref in ((0, u), (1, s)):
                c = cols_of(res[rt][k])
                if list(c) != want_cols or any(not np.array_equal(c[x], ref[x]) for x in want_cols):
                    chk.fail("the same seed gives different data for different return types / documented columns missing",
                             dict(input=inp, return_type=rt, which=("users", "sessions")[k]))
        again = cols_of(tt.make_users_data(covariates=cov, seed=seed, n_users=nu, **p))
        if any(not np.array_equal(again[x], u[x]) for x in want_cols):
            chk.fail("the same seed gives different data on a second call", dict(input=inp))
        # the generators take nothing from the global configuration: under a configuration in which every default is
        # changed (also options that share a NAME with a generator parameter: ratio) the same seed gives the same data
        if i % 3 == 0:
            with tt.config_context(ratio=3, alpha=0.2, n_obs=(50, 60), power=0.5, my_ratio=7):
                uc = cols_of(tt.make_users_data(covariates=cov, seed=seed, n_users=nu, **p))
                sc = cols_of(tt.make_sessions_data(covariates=cov, seed=seed, n_users=nu, **p))
            if any(not np.array_equal(uc[x], u[x]) for x in want_cols) or any(not np.array_equal(sc[x], s[x]) for x in want_cols):
                chk.fail("the same seed and parameters give different data under another global configuration",
                         dict(input=inp, config="ratio=3, alpha=0.2, n_obs=(50, 60), power=0.5",
                              which="users" if any(not np.array_equal(uc[x], u[x]) for x in want_cols) else "sessions"))
        # a returned frame belongs to the caller: changing it in place must not reach the next call with the same seed
        for rt in ("pandas", "polars"):
            d1 = tt.make_users_data(covariates=cov, seed=seed, n_users=nu, return_type=rt, **p)
            if rt == "pandas":
                d1["revenue"] = -1.0
                d1.loc[d1["variant"] == 1, "orders"] = 99
                d1.drop(columns=["sessions"], inplace=True)
            else:
                import polars as pl
                d1.replace_column(d1.get_column_index("revenue"), pl.Series("revenue", [-1.0] * d1.height))
                d1.insert_column(0, pl.Series("extra", [0] * d1.height))
            d2 = cols_of(tt.make_users_data(covariates=cov, seed=seed, n_users=nu, return_type=rt, **p))
            if list(d2) != want_cols or any(not np.array_equal(d2[x], u[x]) for x in want_cols):
                chk.fail("the same seed gives different data after a previously returned frame was changed in place",
                         dict(input=inp, return_type=rt, columns=list(d2)))
        # a SeedSequence is a documented seed type: the SAME object passed again must give the same data, for every
        # return type and for users vs sessions (numpy's default_rng does not consume a SeedSequence)
        ss = np.random.SeedSequence(seed)
        first = cols_of(tt.make_users_data(covariates=cov, seed=ss, n_users=nu, **p))
        second = cols_of(tt.make_users_data(covariates=cov, seed=ss, n_users=nu, return_type="polars", **p))
        sess = cols_of(tt.make_sessions_data(covariates=cov, seed=ss, n_users=nu, **p))
        if any(not np.array_equal(first[x], second[x]) for x in want_cols) \
                or any(not np.array_equal(first[x], u[x]) for x in want_cols):
            chk.fail("the same SeedSequence object gives different data on a second call / than the integer it wraps",
                     dict(input=inp))
        elif not np.array_equal(np.bincount(sess["user"], minlength=nu), first["sessions"]):
            chk.fail("sessions data made from the same SeedSequence object is not the explosion of the users data",
                     dict(input=inp))
        bad = None
        if list(u) != want_cols:
            bad = "columns"
        elif not np.array_equal(u["user"], np.arange(nu)):
            bad = "user is not 0..n-1"
        elif not set(np.unique(u["variant"])) <= {0, 1}:
            bad = "variant not in {0,1}"
        elif (u["sessions"] < 1).any():
            bad = "sessions < 1"
        elif (u["orders"] < 0).any() or (u["orders"] > u["sessions"]).any():
            bad = "orders outside [0, sessions]"
        elif (u["revenue"] < 0).any() or (u["revenue"][u["orders"] == 0] != 0).any():
            bad = "revenue negative or non-zero without orders"
        elif cov and ((u["orders_covariate"] < 0).any() or (u["orders_covariate"] > u["sessions_covariate"]).any()
                      or (u["revenue_covariate"] < 0).any()
                      or (u["revenue_covariate"][u["orders_covariate"] == 0] != 0).any()):
            bad = "covariate invariants"
        if bad:
            chk.fail("users data invariant broken: " + bad, dict(input=inp))
        # sessions data = explosion of the same users
        bad = None
        cnt = np.bincount(s["user"], minlength=nu)
        if not np.array_equal(cnt, u["sessions"]):
            bad = "rows per user differ from the users' sessions"
        elif not np.array_equal(s["variant"], u["variant"][s["user"]]):
            bad = "variant differs from the user's variant"
        elif (s["sessions"] != 1).any() or (s["orders"] < 0).any() or (s["orders"] > 1).any():
            bad = "session rows: sessions != 1 or orders outside [0,1]"
        elif (s["revenue"] < 0).any() or (s["revenue"][s["orders"] == 0] != 0).any():
            bad = "session revenue"
        elif (np.diff(s["user"]) < 0).any():
            bad = "sessions of a user are not contiguous"
        elif cov and ((s["orders_covariate"] < 0).any() or (s["orders_covariate"] > s["sessions_covariate"] + 1e-9).any()
                      or (s["revenue_covariate"] < 0).any()
                      or (s["revenue_covariate"][s["orders_covariate"] == 0] != 0).any()):
            bad = "session covariates: not 0 <= orders_covariate <= sessions_covariate, or revenue_covariate without orders"
        elif cov:
            for c in ("sessions_covariate", "orders_covariate", "revenue_covariate"):
                first = {}
                for uu, val in zip(s["user"], s[c]):
                    if first.setdefault(uu, val) != val:
                        bad = f"{c} not constant within a user"
                        break
        if bad:
            chk.fail("sessions data is not the per-session explosion of the same users: " + bad, dict(input=inp))


def calibration(chk: Check, n):
    import numpy as np
    import tea_tasting as tt
    rng = chk.rng
    for i in range(n):
        p = rand_params(rng, i)
        if i == 0:
            # integer-typed zero uplifts next to fractional ones
            p = dict(ratio=1, sessions_uplift=0, orders_uplift=0.5, revenue_uplift=0.25, avg_sessions=2,
                     avg_orders_per_session=0.25, avg_revenue_per_order=10)
        elif i == 1:
            p = dict(ratio=2, sessions_uplift=0.1, orders_uplift=0, revenue_uplift=0.5, avg_sessions=3,
                     avg_orders_per_session=0.25, avg_revenue_per_order=10)
        nu = 60000
        seed = rng.randint(0, 10**6)
        inp = dict(params=p, n_users=nu, seed=seed)
        chk.case(("calibration", tuple(sorted(p.items()))))
        chk.branch("calibration")
        d = tt.make_users_data(seed=seed, n_users=nu, **p)
        v = d["variant"].to_numpy()
        share = v.mean()
        want = p["ratio"] / (1 + p["ratio"])
        if abs(share - want) > 7 * math.sqrt(want * (1 - want) / nu):
            chk.fail("treatment share is not ratio/(1+ratio)", dict(input=inp, got=share, expected=want))
        # sessions data of the same parameters, summed per user: the same uplifts must appear
        sd = tt.make_sessions_data(seed=seed + 1, n_users=nu, **p)
        su = sd["user"].to_numpy()
        per_user = {"variant": np.zeros(nu), "sessions": np.bincount(su, minlength=nu).astype(float),
                    "orders": np.bincount(su, weights=sd["orders"].to_numpy().astype(float), minlength=nu),
                    "revenue": np.bincount(su, weights=sd["revenue"].to_numpy().astype(float), minlength=nu)}
        per_user["variant"][su] = sd["variant"].to_numpy()
        for which, frame, vv in (("users", {c: d[c].to_numpy().astype(float) for c in ("sessions", "orders", "revenue")}, v),
                                 ("sessions", per_user, per_user["variant"])):
            for col, up in (("sessions", p["sessions_uplift"]), ("orders", p["orders_uplift"]), ("revenue", p["revenue_uplift"])):
                x = frame[col]
                a, b = x[vv == 1], x[vv == 0]
                if len(a) < 100 or len(b) < 100 or b.mean() == 0:
                    continue
                rel = a.mean() / b.mean() - 1
                se = math.sqrt(a.var() / len(a) / b.mean() ** 2 + a.mean() ** 2 * b.var() / len(b) / b.mean() ** 4)
                if abs(rel - up) > 7 * se + 1e-9:
                    chk.fail(f"{which} data: the relative difference of {col} is not the requested uplift (7-sigma band)",
                             dict(input=inp, got=rel, expected=up, se=se))


def main():
    warnings.filterwarnings("ignore")
    chk = Check(PROP)
    chk.trusted = common.BASE_TRUST + [
        "hand-written: Model/Datasets.lean — tied by correspondence: every Generator call of the real run is recorded "
        "and the model recomputes each distribution parameter and each column from the recorded draws",
        "numpy's Generator is deterministic for a seed and its draws lie in the ranges of their distributions (DrawsOK): "
        "trusted, and asserted on every recorded run; `.round(2)` is a parameter with round2 0 = 0 and monotonicity at 0",
        "calibration: the expectation formulas of the binomial, Poisson, Beta and log-normal laws are definitions in the "
        "statements (e.g. Beta mean a/(a+b)); the sampling band check is supporting evidence only",
        "the three return types are constructors applied to one dict of arrays: compared, not modelled",
    ]
    chk.assumptions = ["valid parameters (Valid = _check_params); integer seeds"]
    proved = chk.prove(extra_targets=["TeaTasting.Model.Datasets"])
    with common.Lock():
        common.lake_build(["TeaTasting.Model.Datasets", "TeaTasting.Driver.Proto"])
    q = chk.tier == "quick"
    correspondence(chk, 18 if q else 150)
    invariants(chk, 30 if q else 300)
    calibration(chk, 4 if q else 30)
    chk.cov["rule"] = ("parameters: avg_sessions in {1.5,2,3,4.5}, sessions_uplift incl. near its lower bound, "
                       "avg_orders_per_session 0.05..0.9, orders_uplift incl. -0.9 and 0.95 of its upper bound (multiplier "
                       "below 1), revenue_uplift -0.5..0.7, ratio 0.1..3.7; covariates on/off; users and sessions; "
                       "10..3000 users; 3 return types; random seeds")
    chk.cov["proved"] = proved

    def extended():
        invariants(chk, 120)
        calibration(chk, 8)

    chk.finish(extended_search=extended)


def replay(path):
    print(open(path).read()[:4000])
    main()
