"""C08 — reported power is the textbook power of the configured test and is monotone.

Proof: lean/TeaTasting/Props/C08.lean over the GENERATED _power_from_stats / _scale_and_distr.
Tie: translator + exact correspondence on solve_power(Aggregates, "power") (grid of effects x n_obs).
Float mode: range, monotonicity in n and effect, covariate-never-lowers on the real code with real
scipy; the laws assumed of scipy's norm / nct are sampled; NaN from scipy's nct far tail = K3.
"""
from __future__ import annotations

import math
from fractions import Fraction as F

import analysis
import common
from analysis import ALTS, NAMES, parse_result, same
from common import Check, Driver, aggr_wire, parse_num, rand_frac, rs, table_wire
from props.c14 import mk_real, parse_aggr

PROP = "C08"
CELLS = [(a, ev, ut) for a in ALTS for ev in (False, True) for ut in (False, True)]


def exact_power(chk: Check, n, family, with_gen):
    import stubs
    import tea_tasting as tt
    rng = chk.rng
    cases = []
    for i in range(n):
        alt, ev, ut = CELLS[i % len(CELLS)]
        with_cov = i % 3 != 0
        t = analysis.gen_data(rng, 4, rng.randint(6, 20), "frac", "noisy" if with_cov else None)
        ratio = rng.choice([F(1), F(1, 3), F(2), F(7, 2)])
        alpha = F(rng.choice([1, 5, 10]), 100)
        sign = -1 if alt == "less" else 1
        rel = i % 2 == 0
        effs = [sign * F(rng.randint(1, 30), 100) for _ in range(rng.randint(1, 3))]
        nobs = [rng.randint(20, 5000) for _ in range(rng.randint(1, 3))] if i % 4 else None
        if i % 5 == 3:                      # repeated values are legitimate input: one row per combination, in order
            effs = effs + [effs[0]]
            if nobs:
                nobs = nobs + [nobs[0]]
        cases.append(dict(alt=alt, ev=ev, ut=ut, cov=with_cov, t=t, ratio=ratio, alpha=alpha, rel=rel, effs=effs,
                          nobs=nobs, den=(i % 4 == 1)))     # every 4th: a ratio metric (denominator mean != 1)
    ag = [parse_aggr(NAMES, o) for o in Driver("DriverSpec.lean").ask(
        [f"aggrof 4 {' '.join(NAMES)} {table_wire(c['t'])}" for c in cases])]

    for ci_, c in enumerate(cases):
        # which roles carry a column: besides (numerator [, covariate]) and all four, the MIXED patterns — a ratio metric
        # with a plain covariate, a plain metric with a ratio covariate
        c["dcov"] = c["cov"] and (c["den"] != (ci_ % 5 in (1, 3)))

    def cfgw(c):
        return (f"c0 {'c1' if c['den'] else '-'} {'c2' if c['cov'] else '-'} {'c3' if c['dcov'] else '-'} "
                f"{c['alt']} 19/20 {int(c['ev'])} {int(c['ut'])} {rs(c['alpha'])} {rs(c['ratio'])} 4/5")
    args = Driver("DriverGen.lean").ask([f"powerargs {cfgw(c)} {aggr_wire(NAMES, *a)}" for c, a in zip(cases, ag)]) \
        if with_gen else None
    pending = []
    for ci, (c, a) in enumerate(zip(cases, ag)):
        with stubs.exact_mode(family):
            if c["den"] or c["dcov"]:
                m = tt.RatioOfMeans("c0", "c1" if c["den"] else None, "c2" if c["cov"] else None,
                                    "c3" if c["dcov"] else None,
                                    alternative=c["alt"], equal_var=c["ev"], use_t=c["ut"])
            else:
                m = tt.Mean("c0", "c2" if c["cov"] else None, alternative=c["alt"], equal_var=c["ev"], use_t=c["ut"])
            m.alpha, m.ratio = c["alpha"], c["ratio"]
            if c["rel"]:
                m.rel_effect_size = tuple(c["effs"]) if len(c["effs"]) > 1 else c["effs"][0]
            else:
                m.effect_size = tuple(c["effs"]) if len(c["effs"]) > 1 else c["effs"][0]
            m.n_obs = tuple(c["nobs"]) if c["nobs"] and len(c["nobs"]) > 1 else (c["nobs"][0] if c["nobs"] else None)
            try:
                rows = list(m.solve_power(mk_real(*a), "power"))
            except ZeroDivisionError:
                chk.branch("skipped:exact-0/0")
                continue
            except Exception as ex:  # noqa: BLE001
                chk.fail("solve_power(…, 'power') raised", dict(case=ci, error=repr(ex)))
                continue
        inp = dict(cell=[c["alt"], c["ev"], c["ut"]], covariate=c["cov"], denominator=c["den"], ratio=str(c["ratio"]), alpha=str(c["alpha"]),
                   effects=[str(e) for e in c["effs"]], relative=c["rel"], n_obs=c["nobs"], family=family,
                   data=[[str(v) for v in r] for r in c["t"]])
        nobs = c["nobs"] or [len(c["t"])]
        chk.case(("exact", c["alt"], c["ev"], c["ut"], c["cov"], c["den"], str(c["ratio"]), len(c["effs"]), len(nobs)))
        chk.branch("metric:" + ("ratio" if c["den"] else "mean") + ("+ratio-covariate" if c["dcov"] else "+plain-covariate" if c["cov"] else ""))
        chk.branch(f"cell={c['alt']},{'pooled' if c['ev'] else 'welch'},{'t' if c['ut'] else 'z'}")
        chk.branch("effects:" + ("relative" if c["rel"] else "absolute"))
        if len(rows) != len(c["effs"]) * len(nobs):
            chk.fail("not one row per effect size x n_obs", dict(input=inp, rows=len(rows)))
            continue
        if args is None:
            continue
        mm, mv = [parse_num(x) for x in args[ci].split()]
        # the variance behind the power analysis, computed independently from the raw rows: the sample variance of
        # LY - theta (LX - mean LX), LY / LX the delta-method linearisations, theta = cov(LY, LX) / var(LX)  (exact rationals)
        if c["cov"]:
            rows_ = c["t"]
            nrow = len(rows_)

            def colv(j):
                return [r_[j] for r_ in rows_]

            def lin(num, den):
                if den is None:
                    return list(num)
                mn, md = sum(num) / nrow, sum(den) / nrow
                return [mn / md + (a_ - mn / md * b_) / md for a_, b_ in zip(num, den)]

            def cov_(u, w):
                mu, mw = sum(u) / nrow, sum(w) / nrow
                return sum((a_ - mu) * (b_ - mw) for a_, b_ in zip(u, w)) / (nrow - 1)
            try:
                LY = lin(colv(0), colv(1) if c["den"] else None)
                LX = lin(colv(2), colv(3) if c["dcov"] else None)
                vx = cov_(LX, LX)
                th = cov_(LY, LX) / vx if vx != 0 else F(0)
                want_var = cov_([a_ - th * b_ for a_, b_ in zip(LY, LX)], [a_ - th * b_ for a_, b_ in zip(LY, LX)])
                real_var = None
                if hasattr(m, "_metric_var") and hasattr(m, "_covariate_coef"):
                    with stubs.exact_mode(family):       # Fractions pass through the zero-division wrappers unchanged
                        wz = mk_real(*a).with_zero_div()
                        real_var = m._metric_var(wz, m._covariate_coef(wz))
                if real_var is not None and not isinstance(real_var, float) and F(real_var) != want_var:
                    chk.fail("the variance behind the reported power is not the variance of the covariate-adjusted "
                             "(linearised) observations", dict(input=inp, observed=str(real_var), expected=str(want_var)))
                    continue
            except ZeroDivisionError:
                pass
        approx = not c["cov"]
        lines, expect = [], []
        k = 0
        for e in c["effs"]:
            for nn in nobs:
                r = rows[k]
                k += 1
                d = e * mm if c["rel"] else e
                relv = e if c["rel"] else e / mm
                expect.append((r, d, relv, nn))
                lines.append(f"{family} {c['alt']} {int(c['ev'])} {int(c['ut'])} {rs(c['alpha'])} {rs(c['ratio'])} "
                             f"{rs(mv)} {nn} {rs(d)}")
        pending.append((inp, approx, expect, lines))
        if ci < 3:
            chk.sample(dict(**{k_: v for k_, v in inp.items() if k_ != "data"}, power=str(rows[0].power)[:40]))
    all_lines = ["power " + ln for _, _, _, lines in pending for ln in lines]
    spec_all = Driver("DriverSpec.lean").ask(all_lines)
    pos = 0
    for inp, approx, expect, lines in pending:
        spec = spec_all[pos:pos + len(lines)]
        pos += len(lines)
        for (r, d, relv, nn), sp in zip(expect, spec):
            if r.n_obs != nn or not same(r.effect_size, d, approx=approx) or not same(r.rel_effect_size, relv, approx=approx):
                chk.fail("row does not carry the grid's effect size / n_obs (abs = rel x adjusted mean)",
                         dict(input=inp, row=[str(x) for x in r], expected=[str(d), str(relv), nn]))
                break
            if not same(r.power, parse_num(sp), approx=approx):
                chk.fail("reported power differs from the textbook power", dict(input=inp, n_obs=nn, effect=str(d),
                                                                                 observed=str(r.power), expected=sp))
                break
    if with_gen:
        # correspondence of the generated _power_from_stats itself on arbitrary statistics
        jobs = []
        for i in range(n):
            alt, ev, ut = CELLS[i % len(CELLS)]
            v = abs(rand_frac(rng, 0, 9)) + F(1, 5)
            nn = F(rng.randint(5, 4000))
            d = rand_frac(rng, -3, 3) or F(1, 7)
            ratio = rng.choice([F(1), F(1, 3), F(2), F(7, 2)])
            alpha = F(rng.choice([1, 5, 10, 50]), 100)
            jobs.append((alt, ev, ut, v, nn, d, ratio, alpha))
        gl = [f"power {family} x - - - {alt} 19/20 {int(ev)} {int(ut)} {rs(alpha)} {rs(ratio)} 4/5 {rs(v)} {rs(nn)} {rs(d)}"
              for alt, ev, ut, v, nn, d, ratio, alpha in jobs]
        gout = Driver("DriverGen.lean").ask(gl)
        for (alt, ev, ut, v, nn, d, ratio, alpha), go in zip(jobs, gout):
            with stubs.exact_mode(family):
                m = tt.Mean("x", alternative=alt, equal_var=ev, use_t=ut)
                m.alpha, m.ratio = alpha, ratio
                try:
                    real = m._power_from_stats(sample_var=v, sample_count=nn, effect_size=d)
                except ZeroDivisionError:
                    continue
            chk.case(("pfs", alt, ev, ut, str(v), str(nn), str(d)), nontrivial=False)
            if real != parse_num(go):
                chk.disagree("Gen.power_from_stats vs _power_from_stats",
                             dict(cell=[alt, ev, ut], v=str(v), n=str(nn), d=str(d), ratio=str(ratio), alpha=str(alpha),
                                  impl=str(real), model=go))


def float_relations(chk: Check, n):
    import numpy as np
    import scipy.stats as st
    import tea_tasting as tt
    rng = chk.rng
    A = tt.aggr.Aggregates
    nan_points = 0
    for i in range(n):
        alt, ev, ut = CELLS[i % len(CELLS)]
        var = rng.uniform(0.2, 9)
        mean = rng.uniform(1, 10)
        vx = rng.uniform(0.2, 4)
        rho = rng.uniform(-0.95, 0.95)
        cov = rho * math.sqrt(var * vx)
        data = A(1000, {"x": mean, "c": 2.0}, {"x": var, "c": vx}, {("c", "x"): cov})
        ratio = rng.choice([1, 0.5, 2, 3.5])
        alpha = rng.choice([0.01, 0.05, 0.1])
        sign = -1 if alt == "less" else 1
        effs = sorted(sign * rng.uniform(0.005, 0.4) for _ in range(3))
        if sign < 0:
            effs = effs[::-1]            # growing magnitude in the direction of the alternative
        ns = sorted(rng.randint(20, 200000) for _ in range(3))
        kw = dict(alternative=alt, equal_var=ev, use_t=ut, alpha=alpha, ratio=ratio)
        inp = dict(cell=[alt, ev, ut], var=var, mean=mean, cov_var=vx, rho=rho, ratio=ratio, alpha=alpha,
                   effects=effs, n_obs=ns)
        chk.case(("float", i), nontrivial=False)
        chk.branch("float-relations")
        try:
            grid = tt.Mean("x", effect_size=tuple(effs), n_obs=tuple(ns), **kw).solve_power(data, "power")
            gridc = tt.Mean("x", "c", effect_size=tuple(effs), n_obs=tuple(ns), **kw).solve_power(data, "power")
        except Exception as ex:  # noqa: BLE001
            chk.fail("solve_power raised", dict(input=inp, error=repr(ex)))
            continue
        pw = {(r.effect_size, r.n_obs): r.power for r in grid}
        pwc = {(r.effect_size, r.n_obs): r.power for r in gridc}
        # the same options taken from the configuration in force at construction (nothing passed explicitly) describe the
        # same test: allocation ratio, alpha, alternative, equal_var, use_t must be honoured by Mean and RatioOfMeans alike
        try:
            with tt.config_context(**kw):
                m_cfg = tt.Mean("x", effect_size=tuple(effs), n_obs=tuple(ns))
                r_cfg = tt.RatioOfMeans("x", effect_size=tuple(effs), n_obs=tuple(ns))
            for nm, g in (("Mean", m_cfg.solve_power(data, "power")), ("RatioOfMeans", r_cfg.solve_power(data, "power"))):
                for r, rc in zip(grid, g):
                    if not (r.power == rc.power or (math.isnan(r.power) and math.isnan(rc.power))):
                        chk.fail(f"{nm} built under a configuration with the options gives another power than the same "
                                 "options passed explicitly", dict(input=inp, effect=r.effect_size, n_obs=r.n_obs,
                                                                   explicit=r.power, from_config=rc.power))
                        break
        except Exception as ex:  # noqa: BLE001
            chk.fail("solve_power raised for a metric configured through config_context", dict(input=inp, error=repr(ex)))
        # an uninformative covariate (sample variance exactly 0, zero covariance) leaves the power unchanged
        const = A(1000, {"x": mean, "k": 7.0}, {"x": var, "k": 0.0}, {("k", "x"): 0.0})
        try:
            gridk = tt.Mean("x", "k", effect_size=tuple(effs), n_obs=tuple(ns), **kw).solve_power(const, "power")
            for r, rk in zip(grid, gridk):
                if not (r.power == rk.power or abs(r.power - rk.power) <= 1e-12 or (math.isnan(r.power) and math.isnan(rk.power))):
                    chk.fail("a covariate with zero variance changes the reported power",
                             dict(input=inp, effect=r.effect_size, n_obs=r.n_obs, plain=r.power, constant_covariate=rk.power))
                    break
        except Exception as ex:  # noqa: BLE001
            chk.fail("solve_power raised with a constant covariate", dict(input=inp, error=repr(ex)))
        # n_obs inferred from the sample: every call uses the size of the sample IT is given, whatever the metric object
        # has been used for before; solve_power never changes the metric's parameters
        m_inf = tt.Mean("x", effect_size=effs[1], **kw)
        before = repr(m_inf)
        sizes = [int(rng.choice([200, 1000, 5000])), int(rng.choice([300, 2000, 40000]))]
        for sz in sizes:
            smp = A(sz, {"x": mean}, {"x": var}, {})
            try:
                got = m_inf.solve_power(smp, "power")[0]
                fresh = tt.Mean("x", effect_size=effs[1], **kw).solve_power(smp, "power")[0]
            except Exception as ex:  # noqa: BLE001
                chk.fail("solve_power raised with n_obs inferred from the sample", dict(input=inp, error=repr(ex)))
                break
            if got.n_obs != sz or not (got.power == fresh.power or (math.isnan(got.power) and math.isnan(fresh.power))):
                chk.fail("power with n_obs inferred from the sample depends on earlier calls on the same metric object",
                         dict(input=inp, sample_size=sz, reported_n_obs=got.n_obs, power=got.power, fresh_metric_power=fresh.power))
                break
        if repr(m_inf) != before:
            chk.fail("solve_power changed the metric's parameters", dict(input=inp, before=before, after=repr(m_inf)))
        for (e, nn), p in list(pw.items()) + list(pwc.items()):
            if math.isnan(p):
                nan_points += 1
                # scipy's nct.cdf far tail returns nan: only (two-sided, use_t) is affected
                chk.fail("power is NaN", dict(input=inp, effect=e, n_obs=nn))
            elif not (-1e-12 <= p <= 1 + 1e-12):
                chk.fail("power outside [0,1]", dict(input=inp, effect=e, n_obs=nn, power=p))
        tol = 1e-9
        for tab, label in ((pw, "plain"), (pwc, "with covariate")):
            for nn in ns:
                seq = [tab[(e, nn)] for e in effs]
                if any(math.isnan(x) for x in seq):
                    continue
                if any(b < a - tol for a, b in zip(seq, seq[1:])):
                    chk.fail(f"power decreases when the effect grows in the direction of the alternative ({label})",
                             dict(input=inp, n_obs=nn, powers=seq))
            for e in effs:
                seq = [tab[(e, nn)] for nn in ns]
                if any(math.isnan(x) for x in seq):
                    continue
                if any(b < a - tol for a, b in zip(seq, seq[1:])):
                    chk.fail(f"power decreases when n grows ({label})", dict(input=inp, effect=e, powers=seq))
        for key in pw:
            if not (math.isnan(pw[key]) or math.isnan(pwc[key])) and pwc[key] < pw[key] - tol:
                chk.fail("adding a covariate lowered the power", dict(input=inp, key=key, plain=pw[key], cov=pwc[key]))
        # independent closed form (Z) / scipy nct (t)
        for (e, nn), p in pw.items():
            if math.isnan(p):
                continue
            nc_, nt_ = nn / (1 + ratio), nn * ratio / (1 + ratio)
            se = math.sqrt(var / nc_ + var / nt_)
            if ut:
                df = nn - 2 if ev else (var / nc_ + var / nt_) ** 2 / ((var / nc_) ** 2 / (nc_ - 1) + (var / nt_) ** 2 / (nt_ - 1))
                null, altd = st.t(df), st.nct(df, e / se)
            else:
                null, altd = st.norm(), st.norm(e / se)
            if alt == "greater":
                want = altd.sf(null.isf(alpha))
            elif alt == "less":
                want = altd.cdf(null.ppf(alpha))
            else:
                c = null.isf(alpha / 2)
                want = altd.cdf(-c) + altd.sf(c)
            if not math.isnan(want) and abs(p - want) > 1e-9:
                chk.fail("power differs from the closed form evaluated with scipy directly",
                         dict(input=inp, effect=e, n_obs=nn, observed=p, expected=want))
    chk.cov["nan_power_points"] = nan_points
    # corpus: the former finding K3 (fixed in /repo by 8d7e1b0) is replayed on every run
    r = tt.Mean("x", effect_size=0.334, n_obs=1000, alpha=0.01, use_t=True, equal_var=True, alternative="two-sided"
                ).solve_power(A(1000, {"x": 1.0}, {"x": 0.5}, {}), "power")
    chk.case(("corpus", "K3"))
    if math.isnan(r[0].power):
        chk.fail("power is NaN", dict(input="df 998, alpha 0.01, nc 7.47, two-sided t"))
    # sample the assumed laws on scipy: norm is a location family; nct is stochastically increasing in nc
    worst = 0.0
    xs = np.linspace(-6, 9, 31)
    for loc in (-3, 0.5, 4):
        worst = max(worst, float(np.max(np.abs(st.norm(loc).cdf(xs) - st.norm().cdf(xs - loc)))))
    viol = 0
    for df in (3, 30, 998):
        for x in (-2.0, 0.5, 1.96, 3.0):
            vals = [st.nct(df, nc).sf(x) for nc in (-2, -0.5, 0, 1, 2.5, 4)]
            viol += sum(1 for a, b in zip(vals, vals[1:]) if b < a - 1e-12)
    chk.cov["scipy_norm_shift_worst_err"] = worst
    chk.cov["scipy_nct_mono_violations"] = viol
    # TTestMonoDf: at a fixed non-centrality in the direction of the alternative the level-alpha one-sided t test does not
    # lose power with more degrees of freedom
    viol_df = 0
    for a_ in (0.01, 0.05, 0.1):
        for nc in (0.0, 0.5, 1.5, 3.0):
            g = [st.nct(df, nc).sf(st.t(df).isf(a_)) for df in (2, 3, 5, 10, 30, 100, 998)]
            l_ = [st.nct(df, -nc).cdf(st.t(df).ppf(a_)) for df in (2, 3, 5, 10, 30, 100, 998)]
            viol_df += sum(1 for u, w in zip(g, g[1:]) if w < u - 1e-10) + sum(1 for u, w in zip(l_, l_[1:]) if w < u - 1e-10)
    chk.cov["scipy_ttest_mono_df_violations"] = viol_df


def closed_form_power(st, alt, ev, ut, alpha, ratio, var, nn, e):
    nc_, nt_ = nn / (1 + ratio), nn * ratio / (1 + ratio)
    se = math.sqrt(var / nc_ + var / nt_)
    if ut:
        df = nn - 2 if ev else (var / nc_ + var / nt_) ** 2 / ((var / nc_) ** 2 / (nc_ - 1) + (var / nt_) ** 2 / (nt_ - 1))
        null, altd = st.t(df), st.nct(df, e / se)
    else:
        null, altd = st.norm(), st.norm(e / se)
    if alt == "greater":
        return altd.sf(null.isf(alpha))
    if alt == "less":
        return altd.cdf(null.ppf(alpha))
    c = null.isf(alpha / 2)
    return altd.cdf(-c) + altd.sf(c)


def shared_statistics_sequence(chk: Check):
    """MANY metric objects with different options (alternative, equal_var, use_t, ratio, alpha) solved one after the other
    in one process on the SAME sample variance, n_obs and effect size: each must report the power of its own test
    (nothing may be remembered per (variance, n) across objects) — and solving for the effect must invert it"""
    import scipy.stats as st
    import tea_tasting as tt
    A = tt.aggr.Aggregates
    var, nn = 0.5, 400
    data = A(1000, {"x": 1.0}, {"x": var}, {})
    order = [(a, ev, ut, r, al) for r in (1, 4, 0.25) for al in (0.05, 0.01) for a, ev, ut in CELLS]
    chk.rng.shuffle(order)
    for alt, ev, ut, ratio, alpha in order:
        e = (-1 if alt == "less" else 1) * 0.12
        kw = dict(alternative=alt, equal_var=ev, use_t=ut, alpha=alpha, ratio=ratio)
        chk.case(("shared-statistics", alt, ev, ut, ratio, alpha), nontrivial=False)
        chk.branch("float:shared-statistics-sequence")
        try:
            p = tt.Mean("x", effect_size=e, n_obs=nn, **kw).solve_power(data, "power")[0].power
            es = tt.Mean("x", n_obs=nn, power=0.8, **kw).solve_power(data, "effect_size")[0].effect_size
            back = tt.Mean("x", effect_size=es, n_obs=nn, **kw).solve_power(data, "power")[0].power
        except Exception as ex:  # noqa: BLE001
            chk.fail("solve_power raised", dict(options=kw, error=repr(ex)))
            continue
        want = closed_form_power(st, alt, ev, ut, alpha, ratio, var, nn, e)
        want_back = closed_form_power(st, alt, ev, ut, alpha, ratio, var, nn, es)
        if not math.isnan(want) and abs(p - want) > 1e-9:
            chk.fail("power differs from the closed form evaluated with scipy directly (metric objects with other options "
                     "were solved before on the same variance and n_obs)",
                     dict(options=kw, var=var, n_obs=nn, effect=e, observed=p, expected=want))
        elif not math.isnan(want_back) and (abs(back - 0.8) > 1e-6 or abs(want_back - 0.8) > 1e-6):
            chk.fail("substituting the solved effect size does not reproduce the target power (metric objects with other "
                     "options were solved before on the same variance and n_obs)",
                     dict(options=kw, var=var, n_obs=nn, solved_effect=es, power_back=back, closed_form=want_back))


def main():
    chk = Check(PROP)
    chk.trusted = common.BASE_TRUST + [
        "assumed of the families (hypotheses AltLaws / NormShift / NctMono / Prims.Laws): norm(loc) is the shift of norm(0); "
        "nct(df, nc) is stochastically increasing in nc; cdf monotone with values in [0,1], sf = 1 - cdf — sampled on scipy "
        "each run (coverage.scipy_*), not proved; scipy's nct returns NaN in the far tail (handled by the code since fix 8d7e1b0)",
        "monotonicity is proved for the Z test (one-sided) and, under NctMono, for the one-sided t test in the effect; in n "
        "for the one-sided t test under NctMono + TTestMonoDf (the level-alpha t test does not lose power with more degrees "
        "of freedom; sampled on scipy: coverage.scipy_ttest_mono_df_violations) given non-decreasing degrees of freedom "
        "(proved for the pooled test); the two-sided cases are checked on the real code, not proved",
        "the effect x n_obs grid of solve_power_from_aggregates is hand-mirrored by the harness (rows_eq_grid)",
    ]
    chk.assumptions = ["ratio > 0, each group larger than one observation, 0 < alpha < 1"]
    proved = chk.prove()
    have_model = chk.ensure_driver_model()
    q = chk.tier == "quick"
    exact_power(chk, 36 if q else 400, 1, have_model)
    if not q:
        exact_power(chk, 72, 2, have_model)
    float_relations(chk, 48 if q else 800)
    shared_statistics_sequence(chk)
    chk.cov["rule"] = ("exact: random rational samples (with / without covariate) x 12 cells x ratio {1,1/3,2,7/2} x alpha x "
                       "scalar / sequence effect sizes (absolute / relative) x n_obs (scalar / sequence / inferred); float: "
                       "random valid aggregates, grids of 3 effects x 3 n_obs, all cells")
    chk.cov["proved"] = proved

    def extended():
        exact_power(chk, 200, 1, False)
        float_relations(chk, 400)

    chk.finish(extended_search=extended)


def replay(path):
    print(open(path).read()[:4000])
    main()
