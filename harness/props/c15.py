"""C15 — row-level metrics see exactly their variant's rows; bootstrap is reproducible.

Proof: lean/TeaTasting/Props/C15.lean over Model/Granular.lean (partition, selection by name, shared read =
stand-alone read, field routing, reproducibility, interval shape under the resampler's contract).
Tie: correspondence — real read_granular / _select_as_numpy / Bootstrap.analyze_granular vs the model run by
DriverGranular.lean on the same tables; the resampler parameter is instantiated by a direct
scipy.stats.bootstrap call on the arrays and settings the MODEL says must be passed (bit-equal comparison).
Search: the same runs against the source rows (multisets per variant) and against the oracle call.
"""
from __future__ import annotations

import math
import warnings
from fractions import Fraction as F

import backends
import common
from common import Check, Driver, rs

PROP = "C15"
SENT = -987001          # stands for a null cell on the wire


def wire_val(v):
    if v is None or (isinstance(v, float) and math.isnan(v)):
        return str(SENT)
    return rs(F(v))


def cell(v):
    return F(SENT) if v is None or (isinstance(v, float) and math.isnan(v)) else F(v)


def rank_map(ids):
    return {v: j for j, v in enumerate(sorted(set(ids), key=lambda z: (str(type(z)), z)))}


def gen_table(rng, i):
    nv = rng.randint(1, 4)
    idkind = ("int", "str", "bool")[i % 3]
    if idkind == "bool":
        nv = min(nv, 2)
    ids = {"int": [3, 0, 7, -2], "str": ["b", "a", "ctl", "A"], "bool": [True, False]}[idkind][:nv]
    n = rng.randint(nv, 30)
    variant = [rng.choice(ids) for _ in range(n)]
    for v in ids:
        if v not in variant:
            variant.append(v)
    n = len(variant)
    cols = {"variant": variant,
            "x": [rng.randint(-9, 9) for _ in range(n)],                    # int column, duplicates likely
            "y": [None if rng.random() < 0.15 else rng.randint(0, 3) / 2 for _ in range(n)],   # float column with nulls
            "z": [float(rng.randint(0, 99)) for _ in range(n)],
            "w": [rng.randint(0, 1) for _ in range(n)]}
    return idkind, ids, cols


def partition(chk: Check, n, kinds):
    import tea_tasting.metrics as tm
    rng = chk.rng
    jobs = []
    for i in range(n):
        idkind, ids, cols = gen_table(rng, i)
        names = ["x", "y", "z", "w"]
        sel = rng.sample(names, rng.randint(1, 3))
        jobs.append((idkind, ids, cols, sel))
    lines = []
    for idkind, ids, cols, sel in jobs:
        rk = rank_map(cols["variant"])
        names = ["x", "y", "z", "w"]
        nrows = len(cols["variant"])
        body = " ".join(f"{rk[cols['variant'][j]]} " + " ".join(wire_val(cols[c][j]) for c in names) for j in range(nrows))
        lines.append(f"read {len(sel)} {' '.join(sel)} {len(names)} {' '.join(names)} {nrows} {body}")
    out = Driver("DriverGranular.lean").ask(lines)
    for (idkind, ids, cols, sel), mo in zip(jobs, out):
        rk = rank_map(cols["variant"])
        model = {}
        for part in mo.split("|"):
            k, rows = part.split(":")
            model[int(k)] = [tuple(F(x) for x in r.split(",")) for r in rows.split(";")] if rows else []
        inputs = backends.make_inputs(cols, kinds)
        for kind, data in inputs.items():
            if kind == "ibis-sqlite" and idkind == "bool":
                continue
            ordered = kind != "ibis-sqlite"
            inp = dict(input=kind, ids=repr(ids), cols=sel, rows=len(cols["variant"]), seed=chk.seed)
            chk.case(("partition", kind, idkind, len(set(cols["variant"])), len(sel), len(cols["variant"])))
            chk.branch("partition:" + kind)
            chk.branch("ids:" + idkind)
            try:
                res = tm.read_granular(data, tuple(sel), "variant")
            except Exception as ex:  # noqa: BLE001
                chk.fail("read_granular raised", dict(input=inp, error=repr(ex)))
                continue
            want_keys = sorted(rk, key=lambda v: rk[v])
            got_keys = sorted(res, key=lambda v: (str(type(v)), v))
            if got_keys != want_keys or any(type(a) is not type(b) for a, b in zip(got_keys, want_keys)):
                chk.fail("parts are not keyed by the distinct variant values (as the same Python values)",
                         dict(input=inp, got=repr(list(res)), expected=repr(want_keys)))
                continue
            for v, table in res.items():
                if list(table.column_names) != list(sel):
                    chk.fail("a part does not hold exactly the declared columns", dict(input=inp, got=table.column_names))
                    break
                got = [tuple(cell(x) for x in row) for row in zip(*[table[c].to_pylist() for c in sel])] if sel else []
                src = [tuple(cell(cols[c][j]) for c in sel) for j in range(len(cols["variant"]))
                       if cols["variant"][j] == v and type(cols["variant"][j]) is type(v)]
                m = model[rk[v]]
                if (got != src) if ordered else (sorted(got) != sorted(src)):
                    chk.fail("a variant's part is not exactly that variant's rows of the declared columns",
                             dict(input=inp, variant=repr(v), got=[list(map(str, r)) for r in got][:12],
                                  expected=[list(map(str, r)) for r in src][:12]))
                    break
                if (got != m) if ordered else (sorted(got) != sorted(m)):
                    chk.disagree("read_granular vs model readGranular", dict(input=inp, variant=repr(v)))
                    break
    return


def selection(chk: Check, n):
    import numpy as np
    import pyarrow as pa
    try:
        from tea_tasting.metrics.resampling import _select_as_numpy
    except ImportError:
        # a private helper: its absence is a refactoring, not a violation — the tie of Model selectAsNumpy is gone,
        # the public behaviour (declared column order, vector vs stack) is decided by bootstrap_runs
        chk.disagree("tea_tasting.metrics.resampling._select_as_numpy no longer exists: selectAsNumpy of "
                     "Model/Granular.lean has no counterpart to compare with", dict(module="tea_tasting.metrics.resampling"))
        return
    rng = chk.rng
    names = ["x", "y", "z", "w"]
    jobs = []
    for i in range(n):
        fetched = rng.sample(names, rng.randint(1, 4))
        columns = rng.sample(fetched, rng.randint(1, len(fetched))) if i % 6 else rng.sample(names, 2)
        single = len(columns) == 1 and i % 2 == 0
        nrows = rng.randint(1, 8)
        rows = [[rng.randint(-5, 5) for _ in fetched] for _ in range(nrows)]
        jobs.append((fetched, columns, single, rows))
    out = Driver("DriverGranular.lean").ask(
        [f"select {len(f)} {' '.join(f)} {len(c)} {' '.join(c)} {len(r)} " + " ".join(" ".join(map(str, row)) for row in r)
         for f, c, s, r in jobs])
    for (fetched, columns, single, rows), mo in zip(jobs, out):
        table = pa.table({c: [row[j] for row in rows] for j, c in enumerate(fetched)})
        chk.case(("select", tuple(fetched), tuple(columns), single, len(rows)))
        chk.branch("select:" + ("vector" if single else "stack"))
        inp = dict(fetched=fetched, columns=columns, single_string=single, rows=rows)
        try:
            arr = _select_as_numpy(table, columns[0] if single else tuple(columns))
            real = ";".join(",".join(str(int(x)) for x in np.atleast_1d(row)) for row in arr)
            shape_ok = (arr.ndim == 1) if single else (arr.shape == (len(rows), len(columns)))
        except KeyError:
            real, shape_ok = "keyerror", True
        if real != mo:
            chk.disagree("_select_as_numpy vs model selectAsNumpy", dict(input=inp, impl=real, model=mo))
        want = ";".join(",".join(str(row[fetched.index(c)]) for c in columns) for row in rows) \
            if all(c in fetched for c in columns) else "keyerror"
        if real != want or not shape_ok:
            chk.fail("_select_as_numpy does not return the named columns of the rows (vector for one name, (n, k) stack "
                     "for several)", dict(input=inp, got=real, expected=want))


def stat_ratio(a, axis=0):
    import numpy as np
    m = np.mean(a, axis=axis)
    return np.take(m, 0, axis=-1) / np.take(m, 1, axis=-1) if False else m[..., 0] / m[..., 1] if m.ndim else m


def ratio_of_means(sample, axis):
    import numpy as np
    # the shape documented by Bootstrap: with several columns the LAST axis holds the columns after the reduction
    means = np.mean(sample, axis=axis)
    return np.take(means, 0, axis=-1) / np.take(means, 1, axis=-1)


def eqf(a, b):
    a, b = float(a), float(b)
    return (math.isnan(a) and math.isnan(b)) or a == b


def bootstrap_runs(chk: Check, n, kinds):
    import numpy as np
    import scipy.stats
    import tea_tasting as tt
    rng = chk.rng
    lines, meta = [], []
    for i in range(n):
        nprng = np.random.default_rng(rng.randint(0, 2**31))
        idkind = ("int", "str")[i % 2]
        ids = [0, 1, 2][: rng.randint(2, 3)] if idkind == "int" else ["a", "b", "c"][: rng.randint(2, 3)]
        sizes = [rng.randint(8, 60) for _ in ids]
        variant = [v for v, s in zip(ids, sizes) for _ in range(s)]
        rng.shuffle(variant)
        nrows = len(variant)
        intdata = i % 4 == 0
        zeros = i % 5 == 3 and not intdata        # a COUNT column, mostly zeros: medians / low quantiles (and many resampled ones) are
        #                           exactly 0, so relative effects are x/0 = +-inf or 0/0 = nan inside scipy's resampling
        cols = {"variant": variant,
                "x": (nprng.integers(1, 20, nrows).astype(float) if intdata else
                      np.where(np.array([v == ids[0] for v in variant]), nprng.poisson(0.4, nrows),
                               nprng.poisson(2.5, nrows)).astype(float) if zeros else
                      nprng.lognormal(1, 0.7, nrows)).tolist(),
                "s": (1 + nprng.poisson(2, nrows)).astype(float).tolist(),
                "u": nprng.normal(0, 1, nrows).tolist(),
                "k": [int(v) for v in 1 + nprng.poisson(3, nrows)]}        # an INTEGER column
        alt = rng.choice(["two-sided", "greater", "less"])
        cl = rng.choice([0.8, 0.9, 0.95, 0.99])
        method = rng.choice(["percentile", "basic", "bca"])
        nres = rng.choice([20, 50, 199]) if chk.tier == "quick" else rng.choice([50, 199, 999])
        seed = rng.randint(0, 10**6)
        skind = ("mean", "ratio", "median", "quantile")[i % 4]
        if intdata:
            skind = "mean"
        if zeros:
            skind = "quantile"
        batch = None if i % 3 else rng.choice([1, 7, 33])          # a user-supplied batch size is a setting too
        if skind == "ratio":
            batch = None      # (this harness's two-column statistic indexes the last axis: not meaningful for batch = 1)
        common_kw = dict(alternative=alt, confidence_level=cl, n_resamples=nres, method=method, random_state=seed)
        if batch is not None:
            common_kw["batch"] = batch
        if skind == "mean":
            columns, stat = "x", np.mean
            metric = tt.Bootstrap("x", np.mean, **common_kw)
        elif skind == "ratio":
            # (every other time the INTEGER column is declared first: the stack must still hold the float values)
            columns, stat = (("x", "s"), ratio_of_means) if i % 8 < 4 else (("k", "x"), ratio_of_means)
            metric = tt.Bootstrap(columns, ratio_of_means, **common_kw)
        elif skind == "median":
            columns, stat = ("u",), (lambda a, axis=0: np.median(a, axis=axis)[..., 0])
            metric = tt.Bootstrap(("u",), stat, **common_kw)
        else:
            q = rng.choice([0.1, 0.5, 0.8]) if not zeros else 0.5
            import functools
            columns, stat = "x", functools.partial(np.nanquantile, q=q)
            metric = tt.Quantile("x", q, **common_kw)
        contr_id, treat_id = ids[0], ids[-1]

        def sample_of(v):
            rows = [j for j in range(nrows) if variant[j] == v]
            if isinstance(columns, str):
                return np.array([cols[columns][j] for j in rows], dtype=float)
            return np.column_stack([np.array([cols[c][j] for j in rows], dtype=float) for c in columns])

        contr, treat = sample_of(contr_id), sample_of(treat_id)

        def stacked(c, t, axis=-1):
            cs, ts = stat(c, axis=axis), stat(t, axis=axis)
            with np.errstate(divide="ignore", invalid="ignore"):
                return np.stack((ts - cs, np.divide(ts, cs) - 1), axis=0)

        with warnings.catch_warnings():
            warnings.simplefilter("ignore")
            oracle = scipy.stats.bootstrap((contr, treat), stacked, n_resamples=nres, batch=batch, axis=0,
                                           confidence_level=cl, alternative=alt, method=method, random_state=seed)
        st = stacked(contr, treat, axis=0)
        expect = [stat(contr, axis=0), stat(treat, axis=0), st[0], oracle.confidence_interval.low[0],
                  oracle.confidence_interval.high[0], st[1], oracle.confidence_interval.low[1],
                  oracle.confidence_interval.high[1]]
        inp = dict(statistic=skind, columns=columns, alternative=alt, confidence_level=cl, method=method,
                   n_resamples=nres, batch=batch, seed=seed, ids=repr(ids), sizes=sizes, case=i, check_seed=chk.seed)
        for kind, data in backends.make_inputs(cols, kinds).items():
            chk.case(("bootstrap", kind, skind, alt, method, nres))
            chk.branch("bootstrap:" + skind)
            chk.branch("alt:" + alt)
            chk.branch("method:" + method)
            chk.branch("input:" + kind)
            inp2 = dict(inp, input=kind)
            try:
                with warnings.catch_warnings():
                    warnings.simplefilter("ignore")
                    r1 = metric.analyze(data, contr_id, treat_id, "variant")
                    r2 = metric.analyze(data, contr_id, treat_id, "variant")
                    others = {"m": tt.Mean("x"), "b0": tt.Bootstrap("u", np.mean, n_resamples=10, random_state=seed + 1)}
                    exp = tt.Experiment({"first": others["b0"], "it": metric, "m": others["m"],
                                         "q": tt.Quantile("s", 0.5, n_resamples=10, random_state=3)})
                    r3 = exp.analyze(data, contr_id, all_variants=True)[(contr_id, treat_id)]["it"]
            except Exception as ex:  # noqa: BLE001
                chk.fail("Bootstrap/Quantile analysis raised", dict(input=inp2, error=repr(ex)))
                continue
            if kind == "ibis-sqlite":
                # row order of a SQL result is the engine's: compare only order-free fields
                idx = [0, 1, 2, 5] if skind in ("mean", "ratio", "median", "quantile") else []
                bad = [r1._fields[j] for j in idx if not (abs(float(r1[j]) - float(expect[j])) <= 1e-9 * (1 + abs(float(expect[j])))
                                                        or eqf(r1[j], expect[j]))]
            else:
                bad = [f for f, a, b in zip(r1._fields, r1, expect) if not eqf(a, b)]
            if bad:
                chk.fail("BootstrapResult differs from the plain statistic / scipy.stats.bootstrap on the same arrays and "
                         "settings", dict(input=inp2, field=bad[0], got=repr(float(getattr(r1, bad[0]))),
                                          expected=repr(float(expect[r1._fields.index(bad[0])]))))
                continue
            if any(not eqf(a, b) for a, b in zip(r1, r2)):
                chk.fail("the same integer seed gives different results on a second analysis", dict(input=inp2))
            if kind != "ibis-sqlite" and any(not eqf(a, b) for a, b in zip(r1, r3)):
                chk.fail("the result inside an Experiment next to other metrics differs from the stand-alone result",
                         dict(input=inp2, alone=[repr(float(x)) for x in r1], in_experiment=[repr(float(x)) for x in r3]))
            lo, hi, rlo, rhi = map(float, (r1.effect_size_ci_lower, r1.effect_size_ci_upper,
                                           r1.rel_effect_size_ci_lower, r1.rel_effect_size_ci_upper))
            if (not math.isnan(lo) and not math.isnan(hi) and lo > hi) or \
                    (not math.isnan(rlo) and not math.isnan(rhi) and rlo > rhi):
                chk.fail("interval with lower > upper", dict(input=inp2, ci=[lo, hi, rlo, rhi]))
            if alt == "greater" and not (hi == math.inf and rhi == math.inf):
                chk.fail("alternative='greater' but the upper bounds are not +inf", dict(input=inp2, ci=[lo, hi, rlo, rhi]))
            if alt == "less" and not (lo == -math.inf and rlo == -math.inf):
                chk.fail("alternative='less' but the lower bounds are not -inf", dict(input=inp2, ci=[lo, hi, rlo, rhi]))
            if intdata and kind == "pyarrow":
                ci = oracle.confidence_interval
                lines.append(f"analyze {alt} {len(contr)} {' '.join(str(int(x)) for x in contr)} {len(treat)} "
                             f"{' '.join(str(int(x)) for x in treat)} {float(ci.low[0])!r} {float(ci.low[1])!r} "
                             f"{float(ci.high[0])!r} {float(ci.high[1])!r}")
                meta.append((inp2, r1))
        if i < 2:
            chk.sample(dict(kind="bootstrap run", **inp, result=[repr(float(x)) for x in expect]))
    if lines:
        out = Driver("DriverGranular.lean").ask(lines)
        for (inp2, r1), mo in zip(meta, out):
            toks = mo.split()
            chk.case(("routing", inp2["case"]))
            chk.branch("model-routing")
            for j, (f, t) in enumerate(zip(r1._fields, toks)):
                real = float(r1[j])
                if j in (0, 1, 2, 5):
                    ok = abs(real - float(F(t))) <= 1e-12 * (1 + abs(real))
                else:
                    ok = eqf(real, float(t))
                if not ok:
                    chk.disagree("Bootstrap.analyze_granular vs model analyzeGranular (field routing)",
                                 dict(input=inp2, field=f, impl=repr(real), model=t))
                    break


def same_columns_two_orders(chk: Check):
    """an Experiment made of two multi-column Bootstrap metrics over the SAME columns declared in opposite orders: the
    shared row-level read then holds exactly those columns, in one order — each metric must still get its own"""
    import numpy as np
    import pyarrow as pa
    import tea_tasting as tt
    nprng = np.random.default_rng(chk.seed + 152)
    n = 60
    data = pa.table({"variant": [j % 2 for j in range(n)], "orders": nprng.poisson(3, n).astype(float) + 1,
                     "sessions": nprng.poisson(8, n).astype(float) + 2})
    kw = dict(n_resamples=30, random_state=5)
    ms = {"o_per_s": tt.Bootstrap(("orders", "sessions"), ratio_of_means, **kw),
          "s_per_o": tt.Bootstrap(("sessions", "orders"), ratio_of_means, **kw)}
    chk.case(("bootstrap", "same-columns-two-orders"))
    chk.branch("bootstrap:same-columns-two-orders")
    try:
        inside = tt.Experiment(ms).analyze(data)
        alone = {k: m.analyze(data, 0, 1, "variant") for k, m in ms.items()}
    except Exception as ex:  # noqa: BLE001
        chk.fail("Bootstrap analysis raised", dict(case="same columns in two orders", error=repr(ex)))
        return
    for k in ms:
        if any(not eqf(a, b) for a, b in zip(inside[k], alone[k])):
            chk.fail("the result inside an Experiment next to other metrics differs from the stand-alone result",
                     dict(metric=k, columns=ms[k].columns, alone=[repr(float(x)) for x in alone[k]],
                          in_experiment=[repr(float(x)) for x in inside[k]]))


def large_sample(chk: Check):
    """a LARGE sample (n_resamples x sample size beyond 2**25 cells): the interval is still what scipy.stats.bootstrap
    gives for the same arrays, settings (batch=None) and seed"""
    import numpy as np
    import pyarrow as pa
    import scipy.stats
    import tea_tasting as tt
    nprng = np.random.default_rng(chk.seed + 151)
    n, nres, seed = 34000, 999, 12345
    x = nprng.lognormal(1, 0.5, 2 * n)
    data = pa.table({"variant": [0] * n + [1] * n, "x": x})
    chk.case(("bootstrap-large", n, nres))
    chk.branch("bootstrap:large-sample")
    inp = dict(rows_per_variant=n, n_resamples=nres, seed=seed, statistic="mean", method="percentile")
    try:
        r = tt.Bootstrap("x", np.mean, n_resamples=nres, method="percentile", random_state=seed).analyze(data, 0, 1, "variant")
    except Exception as ex:  # noqa: BLE001
        chk.fail("Bootstrap analysis raised on a large sample", dict(input=inp, error=repr(ex)))
        return

    def stacked(c, t, axis=-1):
        cs, ts = np.mean(c, axis=axis), np.mean(t, axis=axis)
        return np.stack((ts - cs, ts / cs - 1), axis=0)
    o = scipy.stats.bootstrap((x[:n], x[n:]), stacked, n_resamples=nres, batch=None, axis=0, confidence_level=0.95,
                              alternative="two-sided", method="percentile", random_state=seed).confidence_interval
    got = [float(r.effect_size_ci_lower), float(r.effect_size_ci_upper), float(r.rel_effect_size_ci_lower),
           float(r.rel_effect_size_ci_upper)]
    want = [float(o.low[0]), float(o.high[0]), float(o.low[1]), float(o.high[1])]
    if got != want:
        chk.fail("BootstrapResult differs from scipy.stats.bootstrap on the same arrays and settings (large sample)",
                 dict(input=inp, got=got, expected=want))


def main():
    warnings.filterwarnings("ignore")
    chk = Check(PROP)
    chk.trusted = common.BASE_TRUST + [
        "hand-written: Model/Granular.lean (readGranular, selectAsNumpy, analyzeGranular) — tied by correspondence on "
        "the same tables (DriverGranular.lean)",
        "scipy.stats.bootstrap and the statistic are parameters of the model: resampling and the RNG are NOT modelled; "
        "the harness instantiates the parameter with a direct scipy call on the arrays/settings the model prescribes and "
        "compares bit for bit; `BootContract` (ordered, one-sided as the alternative says) is an assumption on scipy, "
        "asserted on every run",
        "the order of the parts (dict order) and the row order of SQL results are not modelled: SQL inputs are compared as "
        "multisets and on order-free fields only",
    ]
    chk.assumptions = ["variant ids non-null and mutually comparable; column names distinct; integer seeds (a Generator "
                       "object is stateful and outside `reproducible`)"]
    proved = chk.prove(extra_targets=["TeaTasting.Model.Granular"])
    with common.Lock():
        common.lake_build(["TeaTasting.Model.Granular", "TeaTasting.Driver.Proto"])
    q = chk.tier == "quick"
    kinds = ("pandas", "polars", "polars-lazy", "pyarrow", "pyarrow-chunked", "ibis-sqlite")
    partition(chk, 25 if q else 250, kinds)
    selection(chk, 60 if q else 600)
    bootstrap_runs(chk, 8 if q else 60, ("pandas", "polars-lazy", "pyarrow", "pyarrow-chunked", "ibis-sqlite"))
    large_sample(chk)
    same_columns_two_orders(chk)
    chk.cov["rule"] = ("partition: 1..4 variants (int/str/bool ids), <= 34 rows, 1..3 of 4 columns (int and float), 6 input "
                       "kinds; selection: fetched superset in any order, by name, vector vs stack, missing column; bootstrap: "
                       "mean / 2-column ratio of means / median of a 1-tuple / Quantile x alternative x level x method x "
                       "n_resamples x seed, alone twice and inside an Experiment between other metrics, 5 input kinds")
    chk.cov["proved"] = proved

    def extended():
        partition(chk, 80, kinds)
        bootstrap_runs(chk, 12, ("pandas", "pyarrow"))

    chk.finish(extended_search=extended)


def replay(path):
    print(open(path).read()[:4000])
    main()
