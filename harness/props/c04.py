"""C04 — Mean reproduces the textbook two-sample t/Z test computed from raw observations."""
from __future__ import annotations

import math

import analysis
import common
import reuse
from analysis import CELLS, make_case, run_cases
from common import Check

PROP = "C04"


def build(chk, n, max_rows=14):
    return [make_case(chk.rng, "mean", CELLS[k % len(CELLS)], k, max_rows) for k in range(n)]


def float_end_to_end(chk: Check, n):
    """Supporting: the unmodified code on floats, raw data through Experiment.analyze, against
    scipy.stats.ttest_ind / the closed-form Z test (samples the assumption that scipy's t/norm are
    the distributions the specification means)."""
    import numpy as np
    import pyarrow as pa
    import scipy.stats as st
    import tea_tasting as tt
    rng = np.random.default_rng(chk.seed + 4)
    worst = 0.0
    for k in range(n):
        alt, ev, ut = CELLS[k % len(CELLS)]
        cl = float(rng.choice([0.5, 0.8, 0.9, 0.95, 0.99, rng.uniform(0.05, 0.995)]))
        nc, nt = int(rng.integers(2, 60)), int(rng.integers(2, 60))
        if k % 4 == 0:
            nc, nt = int(rng.integers(2, 5)), int(rng.integers(40, 200))
        if k % 7 == 6:
            # LARGE samples / degrees of freedom (a t quantile at df ~ 3e4 still differs from the normal one by ~1e-5)
            nc, nt = int(rng.integers(20000, 40000)), int(rng.choice([150, 25000]))
        loc = float(rng.choice([0.5, 3.0, -2.0, 100.0, 3e8]))        # also a level huge next to the spread
        xc = rng.normal(loc, rng.uniform(0.2, 3), nc)
        xt = rng.normal(loc * rng.uniform(0.8, 1.3), rng.uniform(0.2, 3), nt)
        special = None
        if k % 6 == 3:
            # a treatment group whose mean is EXACTLY zero (integer data summing to 0): "any finite values"
            xt = rng.integers(-6, 7, nt).astype(float)
            xt[-1] -= xt.sum()
            if len(set(xt)) < 2:
                xt[0] += 1
                xt[1] -= 1
            special = "treatment-mean-zero"
        elif k % 6 == 5:
            # a control mean hundreds of times smaller than its standard error: the relative interval overflows to
            # +inf, everything absolute is ordinary
            xc = np.array([-1.0, 1.0, 0.004] + [0.0] * (nc - 3 if nc > 3 else 0))[:max(nc, 3)]
            nc = len(xc)
            special = "control-mean-tiny"
        # which id is the control: the smaller one (the default), or - explicitly - the larger one, with the treatment
        # carrying the id 0 / False / "" (a legitimate id that is falsy in Python)
        cvar, tvar = [(0, 1), (1, 0), (True, False), ("b", "")][k % 4] if k % 3 == 1 else (0, 1)
        data = pa.table({"variant": [cvar] * nc + [tvar] * nt, "x": np.concatenate([xc, xt])})
        # every route into the same analysis: PyArrow, pandas, Polars eager and LAZY
        route = ("pyarrow", "polars-lazy", "pandas", "polars")[k % 4]
        if route != "pyarrow" and not isinstance(cvar, bool):
            import polars as pl
            data = {"polars-lazy": lambda t: pl.from_arrow(t).lazy(), "pandas": lambda t: t.to_pandas(),
                    "polars": lambda t: pl.from_arrow(t)}[route](data)
        try:
            if k % 2:
                # explicit options must win over whatever the global configuration says at construction time
                other = dict(alternative=[a for a in ("two-sided", "greater", "less") if a != alt][k % 2],
                             equal_var=not ev, use_t=not ut, confidence_level=0.5 if cl != 0.5 else 0.9)
                with tt.config_context(**other):
                    metric = tt.Mean("x", alternative=alt, equal_var=ev, use_t=ut, confidence_level=cl)
            else:
                metric = tt.Mean("x", alternative=alt, equal_var=ev, use_t=ut, confidence_level=cl)
            if (cvar, tvar) == (0, 1):
                res = tt.Experiment(m=metric).analyze(data)["m"]
            elif k % 2:
                res = tt.Experiment(m=metric).analyze(data, control=cvar)["m"]
            else:
                res = metric.analyze(data, cvar, tvar, "variant")
        except Exception as ex:  # noqa: BLE001
            chk.fail("Experiment.analyze raised on plain float data", dict(cell=[alt, ev, ut], error=repr(ex)))
            continue
        mc, mt, vc, vt = xc.mean(), xt.mean(), xc.var(ddof=1), xt.var(ddof=1)
        if ev:
            sp = ((nc - 1) * vc + (nt - 1) * vt) / (nc + nt - 2)
            se = math.sqrt(sp * (1 / nc + 1 / nt))
            df = nc + nt - 2
        else:
            se = math.sqrt(vc / nc + vt / nt)
            df = (vc / nc + vt / nt) ** 2 / ((vc / nc) ** 2 / (nc - 1) + (vt / nt) ** 2 / (nt - 1))
        d = mt - mc
        if ut:
            r = st.ttest_ind(xt, xc, equal_var=ev, alternative=alt)
            ci = r.confidence_interval(cl)
            exp = dict(statistic=r.statistic, pvalue=r.pvalue, effect_size_ci_lower=ci.low,
                       effect_size_ci_upper=ci.high)
        else:
            z = d / se
            if alt == "greater":
                exp = dict(statistic=z, pvalue=st.norm.sf(z), effect_size_ci_lower=d - se * st.norm.ppf(cl),
                           effect_size_ci_upper=math.inf)
            elif alt == "less":
                exp = dict(statistic=z, pvalue=st.norm.cdf(z), effect_size_ci_lower=-math.inf,
                           effect_size_ci_upper=d + se * st.norm.ppf(cl))
            else:
                h = se * st.norm.ppf((1 + cl) / 2)
                exp = dict(statistic=z, pvalue=2 * st.norm.sf(abs(z)), effect_size_ci_lower=d - h,
                           effect_size_ci_upper=d + h)
        exp.update(control=mc, treatment=mt, effect_size=d, rel_effect_size=mt / mc - 1)
        if special == "control-mean-tiny":
            exp.pop("rel_effect_size")
        chk.case(("float", alt, ev, ut, nc, nt), nontrivial=False)
        chk.branch("float-e2e" + (":" + special if special else ""))
        for f, e in exp.items():
            g = getattr(res, f)
            if math.isinf(e) or math.isinf(g):
                ok = e == g
                err = 0.0
            else:
                err = abs(g - e) / (abs(e) + 1e-9 * (abs(mc) + abs(mt) + se))
                ok = err <= 1e-7
            worst = max(worst, err)
            if not ok:
                chk.fail(f"float end-to-end: field {f} differs from scipy/closed form",
                         dict(cell=[alt, ev, ut], confidence_level=cl, n=[nc, nt], field=f, observed=g, expected=e,
                              control_id=repr(cvar), treatment_id=repr(tvar), input=route,
                              control=xc.tolist()[:200], treatment=xt.tolist()[:200]))
                break
    chk.cov["float_e2e_worst_rel_err"] = worst


def main():
    chk = Check(PROP)
    chk.trusted = common.BASE_TRUST + [
        "assumed of the primitives (hypothesis Prims.QuantileLaws): isf q = -ppf q on (0,1), exp(-x) = 1/exp x; "
        "proved for the rational stand-ins (Props/StubLaws.lean); that scipy.stats.t / norm are the Student / "
        "normal distributions is sampled against scipy.stats.ttest_ind in float mode, not proved",
        "exact mode substitutions; the code's own `1 / 1` (absent covariate) is a float, so Mean runs are compared "
        "to 1e-9 relative against the exact model value",
    ]
    chk.assumptions = [">= 2 observations per sample, non-zero variance and means; confidence_level in (0,1)"]
    proved = chk.prove()
    have_model = chk.ensure_driver_model()
    n = 48 if chk.tier == "quick" else 600
    run_cases(chk, build(chk, n), family=1, with_gen=have_model)
    if chk.tier == "thorough":
        run_cases(chk, build(chk, 120), family=2, with_gen=have_model, label="[family 2] ")
    float_end_to_end(chk, 36 if chk.tier == "quick" else 600)
    analysis.float_far_tail(chk, 12 if chk.tier == "quick" else 120, clauses=("textbook",))
    analysis.narrow_ints(chk, 4 if chk.tier == "quick" else 24, "the test computed from raw observations")
    reuse.analyze_after_mutation(chk, 4 if chk.tier == "quick" else 16, "the test is not the one of the raw observations the frame holds")
    reuse.aggregates_object_reuse(chk, 6 if chk.tier == "quick" else 48, "the test is not the one of the statistics handed over")
    chk.cov["rule"] = ("random rational samples (2..28 per variant, balanced and 1:many), all 12 option cells x "
                       "random confidence levels, exact vs Lean spec/model; plus float end-to-end runs vs scipy")
    chk.cov["proved"] = proved

    def extended():
        run_cases(chk, build(chk, 300), family=1, with_gen=False)
        run_cases(chk, build(chk, 60), family=2, with_gen=False, label="[family 2] ")

    chk.finish(extended_search=extended)


def replay(path):
    print(open(path).read()[:4000])
    main()
