"""C11 — SampleRatio p-values are the exact binomial / normal tests of the expected split.

Proof: lean/TeaTasting/Props/C11.lean over the GENERATED SampleRatio.analyze.
Tie: translator + exact correspondence (rational stand-ins for sqrt / norm.sf; binomtest replaced by
a recorder-stub so its arguments are compared exactly).  Float mode: real p-values against the exact
rational binomial p-value of the Lean spec, the 999/1000/1001 switch, swap and scalar/mapping relations.
"""
from __future__ import annotations

import contextlib
import math
import types
from fractions import Fraction as F

import common
from common import Check, Driver, parse_num, rs

PROP = "C11"
METHODS = ("auto", "binom", "norm")


def binom_stub(k, n, p):
    k, n, p = F(k), F(n), F(p)
    return (k + 1) / (n + 2) * p + (n - k) / (n + 3) * (1 - p) / 7


@contextlib.contextmanager
def exact_mode(family=1):
    import stubs
    import tea_tasting.metrics.proportion as mp
    stub_math, stub_stats = stubs.FAMILIES[family]
    calls = []

    class Norm:
        @staticmethod
        def sf(x):
            return stub_stats.norm().sf(x)

    def binomtest(k, n, p):
        calls.append((k, n, p))
        return types.SimpleNamespace(pvalue=binom_stub(k, n, p))

    saved = (mp.math, mp.scipy)
    mp.math = stub_math
    mp.scipy = types.SimpleNamespace(stats=types.SimpleNamespace(binomtest=binomtest, norm=Norm))
    try:
        yield calls
    finally:
        mp.math, mp.scipy = saved


def close(a, b, tol=1e-12):
    """equal as rationals, or — where the code's own float literal 0.5 / int-over-int ratio has tainted the value —
    equal to `tol` relative"""
    if a == b:
        return True
    fa, fb = float(a), float(b)
    return abs(fa - fb) <= tol * max(abs(fa), abs(fb)) + 1e-300


def exact_cases(chk: Check, n, family, with_gen):
    import tea_tasting as tt
    rng = chk.rng
    A = tt.aggr.Aggregates
    cases = []
    for i in range(n):
        method = METHODS[i % 3]
        corr = bool((i // 3) % 2)
        if i % 5 == 0:
            total = rng.choice([999, 1000, 1001])
            cc = rng.randint(1, total - 1)
            ct = total - cc
        else:
            hi = rng.choice([6, 40, 450, 3000])
            cc, ct = rng.randint(0, hi), rng.randint(0, hi)
            if cc + ct == 0:
                ct = 1
        if i % 2 == 0:
            kind, a, b = "mapping", F(rng.randint(1, 9), rng.randint(1, 9)), F(rng.randint(1, 9), rng.randint(1, 9))
        else:
            kind, a, b = "scalar", F(rng.choice([1, 2, 3, 5])), F(0)
        if i % 7 == 0 and kind == "mapping":      # k = n*p exactly: d = 0, the correction must not move it
            a, b = F(ct), F(cc) if cc else F(1)
        if i % 7 == 3:
            # 0 < |k - n*p| < 1/2: the continuity correction must clamp the deviation at 0 (p-value exactly 1), not
            # carry it across — needs a share n*p that is neither an integer nor a half-integer, and k next to it
            total = cc + ct if cc + ct >= 3 else 30
            if kind == "scalar":
                a = F(rng.choice([2, 3, 5]))
                share = a / (1 + a)
            else:
                share = (a / b) / (1 + a / b)
            np_ = total * share
            k0 = int(np_)
            ct = k0 if (np_ - k0 < F(1, 2) and np_ != k0) or k0 + 1 > total else k0 + 1
            cc = total - ct
        cases.append(dict(method=method, corr=corr, cc=cc, ct=ct, kind=kind, a=a, b=b))
    wire = [f"sr {family} {c['kind']} {rs(c['a'])} {rs(c['b'])} {c['method']} {int(c['corr'])} {c['cc']} {c['ct']}"
            for c in cases]
    specs = Driver("DriverSpec.lean").ask(wire)
    gens = Driver("DriverGen.lean").ask(wire) if with_gen else [None] * n
    for c, so, go in zip(cases, specs, gens):
        if c["kind"] == "mapping":
            m = tt.SampleRatio({"c": 1, "t": 1}, method=c["method"], correction=c["corr"])
            m.ratio = {"t": c["a"], "c": c["b"]}
            if (c["cc"] + c["ct"]) % 2:
                # the mapping may list more variants than the two being compared: the others must be irrelevant
                m.ratio = {"other": F(7, 3), "t": c["a"], "c": c["b"], "x2": F(1, 5)}
        else:
            m = tt.SampleRatio(int(c["a"]), method=c["method"], correction=c["corr"])
        inp = dict(method=c["method"], correction=c["corr"], control_count=c["cc"], treatment_count=c["ct"],
                   ratio=(str(c["a"]), str(c["b"])) if c["kind"] == "mapping" else str(c["a"]), family=family)
        total = c["cc"] + c["ct"]
        chk.case(("exact", c["method"], c["corr"], c["kind"], c["cc"], c["ct"], str(c["a"]), str(c["b"])))
        chk.branch(f"method:{c['method']}")
        chk.branch("n<1000" if total < 1000 else "n>=1000")
        with exact_mode(family) as calls:
            try:
                r = m.analyze({"c": A(c["cc"]), "t": A(c["ct"])}, "c", "t")
            except ZeroDivisionError:
                chk.branch("skipped:exact-0/0")
                continue
            except Exception as ex:  # noqa: BLE001
                chk.fail("SampleRatio.analyze raised", dict(input=inp, error=repr(ex)))
                continue
        real = [r.control, r.treatment, r.pvalue]
        used_binom = bool(calls)
        want_binom = c["method"] == "binom" or (c["method"] == "auto" and total < 1000)
        if used_binom != want_binom:
            chk.fail("wrong test chosen (binomial iff method='binom' or 'auto' below 1000 observations)",
                     dict(input=inp, used_binomial=used_binom))
        if used_binom:
            rv = c["a"] / c["b"] if c["kind"] == "mapping" else c["a"]
            k_, n_, p_ = calls[0]
            if (k_, n_) != (c["ct"], total) or not close(p_, rv / (1 + rv)):
                chk.fail("binomtest called with the wrong arguments (expected treatment count, total, r/(1+r))",
                         dict(input=inp, observed=[str(k_), str(n_), str(p_)]))
        for which, line in (("spec", so), ("model", go)):
            if line is None:
                continue
            exp = [parse_num(t) for t in line.split()]
            for f, a, b in zip(("control", "treatment", "pvalue"), real, exp):
                if not close(a, b, 1e-9 if f == "pvalue" else 1e-12):
                    rep = dict(input=inp, field=f, observed=str(a), expected=str(b))
                    if which == "spec":
                        chk.fail(f"SampleRatio field {f} differs from the documented test", rep)
                    else:
                        chk.disagree(f"Gen.SampleRatio.analyze vs real ({f})", rep)
                    break
        chk.sample(dict(**inp, pvalue=str(real[2])[:40]))


def float_mode(chk: Check, n):
    import scipy.stats as st
    import tea_tasting as tt
    rng = chk.rng
    A = tt.aggr.Aggregates
    jobs = []
    for i in range(n):
        total = rng.choice([1, 2, 7, 30, 120, 399])
        ct = rng.randint(0, total)
        r = rng.choice([1, 2, 0.5, 1.5, 3, 0.25])
        if i % 4 == 0:
            ct = round(total * r / (1 + r))      # near k = n*p: ties of the pmf
        jobs.append((total - ct, ct, r))
    lines = [f"binom {cc + ct} {rs(F(r) / (1 + F(r)))} {ct}" for cc, ct, r in jobs]
    exact = Driver("DriverSpec.lean").ask(lines)
    worst = 0.0
    for (cc, ct, r), e in zip(jobs, exact):
        e = F(e)
        got = tt.SampleRatio(r, method="binom").analyze({0: A(cc), 1: A(ct)}, 0, 1).pvalue
        got_auto = tt.SampleRatio(r).analyze({0: A(cc), 1: A(ct)}, 0, 1).pvalue
        err = abs(float(got) - float(e)) / max(float(e), 1e-300)
        chk.case(("float-binom", cc, ct, r), nontrivial=False)
        chk.branch("float:binom-vs-exact")
        worst = max(worst, err)
        if err > 1e-7 or got != got_auto:
            chk.fail("binomial p-value differs from the exact two-sided binomial test",
                     dict(control=cc, treatment=ct, ratio=r, observed=float(got), auto=float(got_auto),
                          expected=float(e)))
    chk.cov["float_binom_worst_rel_err"] = worst
    # very large counts with the exact test REQUESTED: still the exact binomial p-value (scipy's own binomtest is the
    # oracle here; the Lean oracle covers n < 400)
    for cc, ct, r in ((1999000, 201000, 0.1), (1001500, 998500, 1), (300000, 302000, 1), (4000000, 1002500, 0.25)):
        chk.case(("float-binom-large", cc, ct, r), nontrivial=False)
        chk.branch("float:binom-large-n")
        try:
            got = tt.SampleRatio(r, method="binom").analyze({0: A(cc), 1: A(ct)}, 0, 1).pvalue
        except Exception as ex:  # noqa: BLE001
            chk.fail("SampleRatio(method='binom') raised on large counts", dict(control=cc, treatment=ct, ratio=r, error=repr(ex)))
            continue
        want = st.binomtest(ct, cc + ct, r / (1 + r)).pvalue
        if abs(got - want) > 1e-9 * max(want, 1e-300):
            chk.fail("method='binom' does not give the exact binomial p-value for large counts",
                     dict(control=cc, treatment=ct, ratio=r, observed=float(got), expected=float(want)))
    # relations on the real code: swap + inverse ratio, scalar vs mapping, switch at 1000
    for i in range(n):
        cc, ct = rng.randint(1, 4000), rng.randint(1, 4000)
        if i % 3 == 0:
            tot = rng.choice([999, 1000, 1001])
            cc = rng.randint(1, tot - 1)
            ct = tot - cc
        r = rng.choice([1, 2, 0.5, 4, 0.25, 1.5])
        method = METHODS[i % 3]
        corr = bool(i % 2)
        chk.case(("float-rel", cc, ct, r, method, corr), nontrivial=False)
        chk.branch("float:relations")
        p1 = tt.SampleRatio(r, method=method, correction=corr).analyze({0: A(cc), 1: A(ct)}, 0, 1)
        p2 = tt.SampleRatio(1 / r, method=method, correction=corr).analyze({0: A(ct), 1: A(cc)}, 0, 1)
        mapping = {0: 1, 1: r} if i % 2 else {2: 3.0, 0: 1, 1: r, 3: 0.5}     # extra variants in the mapping: irrelevant
        p3 = tt.SampleRatio(mapping, method=method, correction=corr).analyze({0: A(cc), 1: A(ct)}, 0, 1)
        inp = dict(control=cc, treatment=ct, ratio=r, method=method, correction=corr)
        if (p1.control, p1.treatment) != (cc, ct):
            chk.fail("counts are not reported as they are", dict(input=inp, observed=[p1.control, p1.treatment]))
        if abs(p1.pvalue - p2.pvalue) > 1e-9 * max(p1.pvalue, 1e-300) + 1e-15:
            chk.fail("swapping the variants and inverting the ratio changed the p-value",
                     dict(input=inp, p=float(p1.pvalue), swapped=float(p2.pvalue)))
        if abs(p1.pvalue - p3.pvalue) > 1e-12 * max(p1.pvalue, 1e-300):
            chk.fail("scalar and mapping form of the ratio disagree",
                     dict(input=inp, scalar=float(p1.pvalue), mapping=float(p3.pvalue)))
        # the ratio as a numpy scalar (a float subclass), variant ids of other kinds (bool, str): same p-value
        if i % 3 == 1:
            import numpy as np
            for ids in ((False, True), ("a", "b"), (np.int64(0), np.int64(1))):
                try:
                    pn = tt.SampleRatio(np.float64(r), method=method, correction=corr).analyze(
                        {ids[0]: A(cc), ids[1]: A(ct)}, ids[0], ids[1])
                    pm = tt.SampleRatio({ids[0]: np.float64(1.0), ids[1]: np.float64(r)}, method=method,
                                        correction=corr).analyze({ids[0]: A(cc), ids[1]: A(ct)}, ids[0], ids[1])
                except Exception as ex:  # noqa: BLE001
                    chk.fail("SampleRatio raised for a numpy.float64 ratio / non-integer variant ids",
                             dict(input=inp, ids=repr(ids), error=repr(ex)))
                    break
                for lab, px in (("scalar numpy.float64 ratio", pn), ("mapping of numpy.float64", pm)):
                    try:
                        ok = abs(float(px.pvalue) - float(p1.pvalue)) <= 1e-12 * max(float(p1.pvalue), 1e-300)
                    except (TypeError, ValueError):
                        ok = False
                    if not ok:
                        chk.fail(f"SampleRatio with a {lab} and variant ids {ids!r} gives another p-value than with a "
                                 "Python float and ids 0 / 1", dict(input=inp, observed=repr(px.pvalue), expected=float(p1.pvalue)))
        # ONE SampleRatio object with a mapping over three variants, used for every pair in turn (as Experiment.analyze
        # with all_variants=True does) and for a pair with its roles swapped: each answer must be the one a fresh object
        # with the pair's own scalar ratio gives
        if i % 2 == 0:
            c3 = rng.randint(1, 3000)
            rm = {0: 1.0, 1: r, 2: rng.choice([0.5, 2.0, 3.0])}
            counts = {0: A(cc), 1: A(ct), 2: A(c3)}
            one = tt.SampleRatio(rm, method=method, correction=corr)
            for (a_, b_) in ((0, 1), (0, 2), (1, 2), (2, 1), (1, 0), (0, 2)):
                got = one.analyze(counts, a_, b_)
                want3 = tt.SampleRatio(rm[b_] / rm[a_], method=method, correction=corr).analyze(counts, a_, b_)
                if (got.control, got.treatment) != (want3.control, want3.treatment) or \
                        abs(got.pvalue - want3.pvalue) > 1e-9 * max(want3.pvalue, 1e-300) + 1e-15:
                    chk.fail("a SampleRatio object with a per-variant mapping, reused for several pairs, gives a p-value "
                             "that is not the test of ratio[treatment]/ratio[control] for the pair at hand",
                             dict(input=dict(inp, mapping=rm, counts=[cc, ct, c3]), pair=[a_, b_], observed=float(got.pvalue),
                                  expected=float(want3.pvalue)))
                    break
        # independent closed form for the normal approximation
        n_ = cc + ct
        if method == "norm" or (method == "auto" and n_ >= 1000):
            p = r / (1 + r)
            d = ct - n_ * p
            if corr:
                d = math.copysign(max(abs(d) - 0.5, 0), d)
            want = 2 * st.norm.sf(abs(d / math.sqrt(n_ * p * (1 - p))))
            if abs(p1.pvalue - want) > 1e-9 * max(want, 1e-300) + 1e-15:
                chk.fail("normal-approximation p-value differs from the closed form",
                         dict(input=inp, observed=float(p1.pvalue), expected=float(want)))


def main():
    chk = Check(PROP)
    chk.trusted = common.BASE_TRUST + [
        "scipy.stats.binomtest is the exact two-sided binomial test (hypothesis `hb` of swap_invariant_binom): sampled "
        "against the Lean exact rational value for n <= 399 each run, not proved; scipy's relative tie tolerance 1e-7 is "
        "not modelled",
        "exact mode: names math/scipy inside tea_tasting.metrics.proportion rebound to rational stand-ins; the code's "
        "own float literal 0.5 and int/int ratios make those runs float-tainted (compared to 1e-9 relative)",
    ]
    chk.assumptions = ["counts >= 0 with n >= 1, ratio > 0"]
    proved = chk.prove()
    with common.Lock():
        ok, _ = common.lake_build(["TeaTasting.Gen.Proportion", "TeaTasting.Gen.Mean", "TeaTasting.Driver.Stubs",
                                   "TeaTasting.Driver.Proto", "TeaTasting.Spec.Proportion", "TeaTasting.Spec.Multiplicity",
                                   "TeaTasting.Spec.Fast"])
        have_model = ok
        if not ok:
            chk.notes.append("regenerated Gen does not type-check; correspondence uses the snapshot model")
            common.use_snapshot()
            have_model, _ = common.lake_build(["TeaTasting.Gen.Proportion", "TeaTasting.Gen.Mean"])
    exact_cases(chk, 90 if chk.tier == "quick" else 1200, 1, have_model)
    if chk.tier == "thorough":
        exact_cases(chk, 200, 2, have_model)
    float_mode(chk, 60 if chk.tier == "quick" else 600)
    chk.cov["rule"] = ("exact: counts 0..3000 incl. totals 999/1000/1001 and k = n*p, ratios scalar/mapping, 3 methods x "
                       "correction; float: binomial p-values vs the exact rational value (n <= 399), relations on the real code")
    chk.cov["proved"] = proved

    def extended():
        exact_cases(chk, 600, 1, False)
        float_mode(chk, 300)

    chk.finish(extended_search=extended)


def replay(path):
    print(open(path).read()[:4000])
    main()
