"""C16 — rendered results are faithful to the numbers and consistent across views.

Proof: lean/TeaTasting/Props/C16.lean over Model/Format.lean (half-even rounding error bounds, significant-digit
bound, value of the fixed / exponential renderings, views as maps over to_dicts, rectangular right-aligned table,
escape round trip).  Tie: string-for-string correspondence of the model (DriverFormat.lean) with the real
format_num / get_and_format_num / to_pretty_dicts / to_string / to_html; `math.log10` results of the real run are
recorded and handed to the model's `ilog10` parameter.  Search: the real text parsed back against the number
(relative error <= 0.5 * 10^(1-s)), views compared with to_dicts, html parsed back with html.parser.
"""
from __future__ import annotations

import html.parser
import math
import struct
import warnings
from decimal import Decimal
from fractions import Fraction as F

import common
from common import Check, Driver, rs

PROP = "C16"


def safe_float(x):
    try:
        return float(x)
    except OverflowError:
        return float("inf")


def enc(s: str) -> str:
    return "s" + ".".join(str(ord(c)) for c in s)


def dec(t: str) -> str:
    body = t[1:]
    return "".join(chr(int(x)) for x in body.split(".")) if body else ""


def num_wire(v) -> str:
    if v is None:
        return "none"
    if isinstance(v, bool):
        return str(int(v))
    if isinstance(v, int):
        return str(v)
    if math.isnan(v):
        return "nan"
    if math.isinf(v):
        return "inf" if v > 0 else "-inf"
    if v == 0 and math.copysign(1.0, v) < 0:
        return "-0"
    return rs(F(v))


class MathProxy:
    """`tea_tasting.utils.math` replaced from outside: records every log10 call"""
    def __init__(self):
        self.calls = []

    def __getattr__(self, name):
        return getattr(math, name)

    def log10(self, x):
        r = math.log10(x)
        self.calls.append((x, math.floor(r)))
        return r


def nextafter(x, d):
    return math.nextafter(x, d)


def gen_numbers(rng, n):
    out = [0.0, -0.0, 0, 1, -1, True, False, None, float("nan"), float("inf"), float("-inf"),
           99.95, 0.00099996, 9999999.5, 999.9999999999999, 0.125, 2.5, 0.5, 1.5, 0.0995, 1e-6, 1e22, 1e23,
           5e-324, 2.2250738585072014e-308, 1.7976931348623157e308, 1e307, -1e307, 12345.678, -1234567.0,
           0.001, 0.0009999999999999998, 10_000_000.0, 9999999.999999998, 10**30, 2**53 + 1, -(10**7), 123456]
    for k in range(-12, 13):
        p = 10.0 ** k
        out += [p, nextafter(p, 0), nextafter(p, math.inf), -p, 5 * p, nextafter(5 * p, 0), 9.995 * p, 9.95 * p, 9.5 * p]
    while len(out) < n:
        r = rng.random()
        if r < 0.4:
            v = rng.uniform(-1, 1) * 10 ** rng.randint(-8, 9)
        elif r < 0.6:
            v = round(rng.uniform(0, 1000), rng.randint(0, 4))              # short decimals: exact ties at the digit
        elif r < 0.7:
            v = struct.unpack("<d", struct.pack("<Q", rng.getrandbits(63)))[0]   # any bit pattern
            if math.isnan(v) or math.isinf(v):
                continue
        elif r < 0.8:
            v = rng.randint(-10**9, 10**9)
        else:
            m = rng.randint(1, 9999)
            v = m * 10.0 ** rng.randint(-9, 6) * rng.choice([1, -1]) + (0.5 * 10.0 ** rng.randint(-9, 3) if rng.random() < .5 else 0)
        out.append(v)
    return out


RANGES = [(0.001, 10_000_000), (None, None), (None, 10_000_000), (0.001, None), (1e-6, 1e12), (1.0, 100.0)]
SEPS = [(None, None), (",", "."), (".", ","), (" ", ","), ("", "."), ("_", ".")]


def parse_back(text, tsep, dpoint, inf, pct):
    t = text
    if pct:
        if not t.endswith("%"):
            return None
        t = t[:-1]
    neg = t.startswith("-")
    if neg:
        t = t[1:]
    if t.count("e") > 1:
        return None
    mant, ex = t.split("e") if "e" in t else (t, "0")
    try:
        int(ex)
    except ValueError:
        return None
    if dpoint and dpoint in mant:
        if mant.count(dpoint) != 1:
            return None
        ip, fp = mant.split(dpoint)
    else:
        ip, fp = mant, ""
    if tsep:
        groups = ip.split(tsep)
        if any(len(g) != 3 for g in groups[1:]) or not (1 <= len(groups[0]) <= 3):
            return None
        ip = "".join(groups)
    if not ip.isdigit() or (fp and not fp.isdigit()):
        return None
    val = F(int(ip + fp), 10 ** len(fp)) * F(10) ** int(ex)
    return -val if neg else val


def format_runs(chk: Check, n):
    import tea_tasting.utils as tu
    rng = chk.rng
    nums = gen_numbers(rng, n)
    jobs = []
    for i, v in enumerate(nums):
        sig = rng.choice([1, 2, 3, 3, 3, 4, 5, 8, 12, 15]) if i % 3 else 3
        pct = rng.random() < 0.3
        rg = RANGES[0] if i % 2 else rng.choice(RANGES)
        ts, dp = SEPS[0] if i % 3 else rng.choice(SEPS)
        jobs.append((v, sig, pct, rg, ts, dp))
        if i < 80:
            jobs.append((v, 3, False, RANGES[0], None, None))
            jobs.append((v, 2, True, RANGES[0], None, None))
    proxy = MathProxy()
    saved = tu.math
    reals = []
    tu.math = proxy
    try:
        for v, sig, pct, rg, ts, dp in jobs:
            proxy.calls = []
            try:
                txt = ("ok", tu.format_num(v, sig, pct=pct, fixed_point_range=rg, thousands_sep=ts, decimal_point=dp))
            except Exception as ex:  # noqa: BLE001
                txt = ("raise", f"{type(ex).__name__}: {ex}")
            reals.append((txt, list(proxy.calls)))
    finally:
        tu.math = saved
    lines = []
    for (v, sig, pct, rg, ts, dp), (txt, calls) in zip(jobs, reals):
        tsw = "" if ts is None else ts          # C locale: thousands_sep '' , decimal_point '.'
        dpw = "." if dp is None else dp
        logs = " ".join(f"{rs(F(x))} {k}" for x, k in calls)
        lines.append(f"fmt {num_wire(v)} {sig} {int(pct)} {enc('-')} {enc('∞')} "
                     f"{'-' if rg[0] is None else rs(F(rg[0]))} {'-' if rg[1] is None else rs(F(rg[1]))} "
                     f"{enc(tsw)} {enc(dpw)} {len(calls)} {logs}".strip())
    out = Driver("DriverFormat.lean").ask(lines)
    for (v, sig, pct, rg, ts, dp), (txt, calls), mo in zip(jobs, reals, out):
        tsw = "" if ts is None else ts
        dpw = "." if dp is None else dp
        toks = mo.split()
        kind = ("special" if v is None or isinstance(v, bool) or (isinstance(v, float) and (math.isnan(v) or math.isinf(v) or v == 0))
                else "int" if isinstance(v, int) else "float")
        chk.case(("fmt", repr(v), sig, pct, rg, ts, dp))
        chk.branch("fmt:" + kind)
        chk.branch("fmt:" + ("pct" if pct else "plain"))
        inp = dict(value=repr(v), sig=sig, pct=pct, fixed_point_range=rg, thousands_sep=ts, decimal_point=dp)
        if txt[0] == "raise":
            overflow = (pct and isinstance(v, float) and math.isfinite(v) and abs(v) > 1.7976931348623157e306
                        and txt[1].startswith("OverflowError"))
            chk.fail("format_num raised on a finite / special number", dict(input=inp, error=txt[1]),
                     finding_key="K4" if overflow else None)
            continue
        text = txt[1]
        if toks[0] == "raise":
            chk.disagree("format_num vs model formatNum (model raises)", dict(input=inp, impl=text, model=mo))
            continue
        mtext = dec(toks[1])
        if mtext != text:
            chk.disagree("format_num vs model formatNum (text)", dict(input=inp, impl=text, model=mtext,
                                                                     log10_calls=[(repr(x), k) for x, k in calls]))
        # the property itself, on the real text
        if kind == "special":
            exp = None
            if v is None or (isinstance(v, float) and math.isnan(v)):
                exp = "-"
            elif isinstance(v, float) and math.isinf(v):
                exp = "∞" if v > 0 else "-∞"
            if exp is not None and text != exp:
                chk.fail("None / NaN / infinity not rendered as documented", dict(input=inp, got=text, expected=exp))
            if exp is None:
                pv = parse_back(text, tsw, dpw, "∞", pct)
                if pv is None or pv != F(v) * (100 if pct else 1):
                    chk.fail("zero / bool rendering does not parse back to the number", dict(input=inp, got=text))
            continue
        chk.branch("fmt:" + ("exp" if "e" in text else "fixed"))
        target = F(float(v) * 100) if pct and math.isfinite(float(v) * 100) else F(v) * (100 if pct else 1)
        pv = parse_back(text, tsw, dpw, "∞", pct)
        if pv is None:
            chk.fail("the rendered text does not parse back to a number (sign, digits, separators, exponent, %)",
                     dict(input=inp, got=text), finding_key="K4" if (pct and text in ("inf%", "-inf%") and abs(float(v)) > 1.7976931348623157e306) else None)
            continue
        err = abs(pv - target)
        bound = F(1, 2) * F(10) ** (1 - sig) * abs(target) * (1 + F(1, 2**40))
        if err > bound or (pv < 0) != (target < 0):
            chk.fail("the rendered text is not the number rounded to `sig` significant digits",
                     dict(input=inp, got=text, parsed=str(pv)[:80], target=str(target)[:80], rel_error=safe_float(err / abs(target)),
                          bound=float(F(1, 2) * F(10) ** (1 - sig))))
        if toks[2] != "-" and F(toks[2]) != pv and mtext == text:
            chk.disagree("model's denoted value differs from what its own text parses to",
                         dict(input=inp, text=text, model_value=toks[2], parsed=str(pv)))


# ---------------------------------------------------------------- result objects and their views
class CellParser(html.parser.HTMLParser):
    def __init__(self):
        super().__init__(convert_charrefs=True)
        self.rows, self.cur, self.cell, self.stack = [], None, None, []

    def handle_starttag(self, tag, attrs):
        self.stack.append(tag)
        if tag == "tr":
            self.cur = []
        if tag in ("td", "th"):
            self.cell = ""

    def handle_endtag(self, tag):
        if not self.stack or self.stack[-1] != tag:
            raise ValueError(f"ill-nested </{tag}>")
        self.stack.pop()
        if tag in ("td", "th"):
            self.cur.append(self.cell)
            self.cell = None
        if tag == "tr":
            self.rows.append(self.cur)
            self.cur = None

    def handle_data(self, data):
        if self.cell is not None:
            self.cell += data


NAMES = ["orders", "rev<b>", "a&b", "x > y", "<script>alert(1)</script>", "naïve ∑", "q\"uote'", "&amp;", "plain_name", "x"]


def rand_value(rng, key):
    r = rng.random()
    if r < 0.05:
        return None
    if r < 0.1:
        return float("nan")
    if r < 0.13:
        return rng.choice([float("inf"), float("-inf")])
    if r < 0.2:
        return rng.randint(-5, 10**6)
    if r < 0.25:
        return rng.choice(["text & <i>", "ok", ""])
    return rng.uniform(-1, 1) * 10 ** rng.randint(-6, 8)


def make_objects(rng):
    import collections
    import tea_tasting as tt
    import tea_tasting.experiment as te
    import tea_tasting.metrics.base as tmb
    import tea_tasting.multiplicity as tmu
    fields = ["control", "treatment", "effect_size", "effect_size_ci_lower", "effect_size_ci_upper", "rel_effect_size",
              "rel_effect_size_ci_lower", "rel_effect_size_ci_upper", "pvalue", "statistic"]
    NT = collections.namedtuple("R", fields)

    def metric_result(homog):
        if homog or rng.random() < 0.6:
            return NT(*[rand_value(rng, f) if not homog else rng.uniform(-1, 1) * 10 ** rng.randint(-4, 6) for f in fields])
        keys = rng.sample(fields, rng.randint(2, 6)) + (["custom"] if rng.random() < .5 else []) \
            + (["p<0.05 & <b>"] if rng.random() < .4 else [])        # a field NAME with markup characters
        return {k: rand_value(rng, k) for k in keys}

    def exp_result(homog):
        names = rng.sample(NAMES, rng.randint(1, 4))
        return te.ExperimentResult({nm: metric_result(homog) for nm in names})

    objs = []
    # a narrow first row (as SampleRatio before Mean): different key sets, homogeneous types per key
    narrow = te.ExperimentResult({"sample_ratio": {"control": float(rng.randint(100, 999)), "treatment": float(rng.randint(100, 999)),
                                                    "pvalue": rng.random()},
                                  **{nm: metric_result(True) for nm in rng.sample(NAMES, 2)}})
    objs.append(("ExperimentResult", narrow, False))
    # plain-dict metric results (the documented alternative to NamedTuples) holding the SAME fields written in a
    # different order, all values floats: every dataframe view must put each value under its own field name
    fs = rng.sample(fields, 4)
    shuffled = ExperimentResultOf = te.ExperimentResult({
        nm: {k: rng.uniform(-1, 1) * 10 ** rng.randint(-2, 4) for k in rng.sample(fs, len(fs))}
        for nm in rng.sample(NAMES, 3)})
    del ExperimentResultOf
    objs.append(("ExperimentResult", shuffled, True))
    objs.append(("ExperimentResults", te.ExperimentResults({(0, 1): narrow, (0, 2): exp_result(True)}), False))
    for homog in (True, False):
        objs.append(("ExperimentResult", exp_result(homog), homog))
        objs.append(("ExperimentResults", te.ExperimentResults({(0, 1): exp_result(homog), ("a<", "b&"): exp_result(homog)}), homog))
        PR = collections.namedtuple("P", ["power", "effect_size", "rel_effect_size", "n_obs"])
        mpr = tmb.MetricPowerResults([PR(rng.random(), rng.uniform(0, 5), rng.random(), rng.randint(10, 10**8))
                                      for _ in range(rng.randint(1, 3))])
        objs.append(("MetricPowerResults", mpr, True))
        objs.append(("ExperimentPowerResult", te.ExperimentPowerResult({rng.choice(NAMES): mpr, "m2": mpr}), True))
        mc = tmu.MultipleComparisonsResults({(0, 1): exp_result(homog), (0, "<2>"): exp_result(homog)})
        objs.append(("MultipleComparisonsResults", mc, homog))
    return objs


def row_wire(d):
    parts = [str(len(d))]
    for k, v in d.items():
        if v is None or isinstance(v, (float, int)):
            parts.append(f"{enc(k)} N:{num_wire(v)}")
        else:
            parts.append(f"{enc(k)} T:{enc(str(v))}")
    return " ".join(parts)


def views(chk: Check, n):
    rng = chk.rng
    jobs = []
    for _ in range(n):
        for cls, obj, homog in make_objects(rng):
            dicts = obj.to_dicts()
            allkeys = []
            for d in dicts:
                for k in d:
                    if k not in allkeys:
                        allkeys.append(k)
            r = rng.random()
            if r < 0.4:
                keys = None
            elif r < 0.7:
                keys = rng.sample(allkeys, rng.randint(1, min(5, len(allkeys)))) + \
                    [rng.choice(["absent_key", "absent<key>&", "<i>x</i>"])]
                if "p<0.05 & <b>" in allkeys and "p<0.05 & <b>" not in keys:
                    keys.insert(rng.randint(0, len(keys)), "p<0.05 & <b>")
            else:
                keys = ["metric", "effect_size_ci", "rel_effect_size_ci", "power", "nope_ci", "pvalue"]
            jobs.append((cls, obj, homog, keys))
    lines = []
    for cls, obj, homog, keys in jobs:
        ks = list(obj.default_keys if keys is None else keys)
        kw = f"{len(ks)} " + " ".join(enc(k) for k in ks)
        dicts = obj.to_dicts()
        rw = f"{len(dicts)} " + " ".join(row_wire(d) for d in dicts)
        lines += [f"pretty {kw} {rw}", f"table {kw} {rw}", f"html {kw} {rw}"]
    out = Driver("DriverFormat.lean").ask(lines)
    for j, (cls, obj, homog, keys) in enumerate(jobs):
        ks = list(obj.default_keys if keys is None else keys)
        dicts = obj.to_dicts()
        chk.case(("views", cls, homog, tuple(ks), len(dicts)))
        chk.branch("views:" + cls)
        inp = dict(cls=cls, keys=ks, dicts=[{k: repr(v) for k, v in d.items()} for d in dicts][:6])
        try:
            pretty = obj.to_pretty_dicts(keys)
            string = obj.to_string(keys)
            htm = obj.to_html(keys)
        except Exception as ex:  # noqa: BLE001
            chk.fail("a view raised", dict(input=inp, error=repr(ex)))
            continue
        mp, mt, mh = out[3 * j], out[3 * j + 1], out[3 * j + 2]
        if mp.startswith("raise"):
            chk.disagree("views: model raises", dict(input=inp, model=mp))
            continue
        mcells = [dec(t) for t in mp.split()[1:]]
        rcells = [d[k] for d in pretty for k in ks]
        if mcells != rcells:
            chk.disagree("to_pretty_dicts vs model prettyCells", dict(input=inp, impl=rcells[:12], model=mcells[:12]))
        mlines = [dec(t) for t in mt.split()[1:]]
        if "\n".join(mlines) != string:
            chk.disagree("to_string vs model toStringLines", dict(input=inp, impl=string[:400], model="\n".join(mlines)[:400]))
        if dec(mh.split()[1]) != htm:
            chk.disagree("to_html vs model toHtml", dict(input=inp, impl=htm[:400], model=dec(mh.split()[1])[:400]))
        # the property on the real views
        if len(pretty) != len(dicts) or any(list(p.keys()) != ks for p in pretty):
            chk.fail("to_pretty_dicts does not expose the rows of to_dicts in order with the selected keys", dict(input=inp))
        lines_ = string.split("\n")
        if len(lines_) != len(dicts) + 1 or len({len(x) for x in lines_}) != 1:
            chk.fail("to_string is not a rectangular table with one line per row", dict(input=inp, got=string[:400]))
        else:
            widths = [max([len(k)] + [len(p[k]) for p in pretty]) for k in ks]
            for li, vals in zip(lines_, [ks] + [[p[k] for k in ks] for p in pretty]):
                pos = 0
                for w, val in zip(widths, vals):
                    cell = li[pos:pos + w]
                    if cell != val.rjust(w):
                        chk.fail("a to_string cell is not the right-aligned to_pretty_dicts value",
                                 dict(input=inp, cell=cell, expected=val))
                    pos += w + 1
        try:
            ps = CellParser()
            ps.feed(htm)
            ps.close()
            if ps.stack:
                raise ValueError("unclosed tags " + repr(ps.stack))
            want = [ks] + [[p[k] for k in ks] for p in pretty]
            if ps.rows != want:
                chk.fail("to_html cells are not the to_pretty_dicts values (escaping?)",
                         dict(input=inp, got=ps.rows[:3], expected=want[:3]))
        except ValueError as ex:
            chk.fail("to_html is not a well-formed table", dict(input=inp, error=repr(ex), html=htm[:300]))
        # a custom formatter: every view must show the same cells for the same arguments
        def fmt2(data, key):
            return f"<{key}>={data.get(key)!r}"[:24]
        try:
            p2 = obj.to_pretty_dicts(keys, fmt2)
            s2 = obj.to_string(keys, fmt2)
            h2 = obj.to_html(keys, fmt2)
            want2 = [ks] + [[fmt2(d, k) for k in ks] for d in dicts]
            ps2 = CellParser()
            ps2.feed(h2)
            ps2.close()
            w2 = [max(len(r[j]) for r in want2) for j in range(len(ks))]
            lines2 = [" ".join(r[j].rjust(w2[j]) for j in range(len(ks))) for r in want2]
            if [[p[k] for k in ks] for p in p2] != want2[1:] or s2 != "\n".join(lines2) or ps2.rows != want2:
                chk.fail("with a custom formatter the views do not show the same cells (to_pretty_dicts / to_string / to_html)",
                         dict(input=inp, pretty=[[p[k] for k in ks] for p in p2][:2], html=ps2.rows[:3], string=s2[:200]))
        except Exception as ex:  # noqa: BLE001
            chk.fail("a view raised with a custom formatter", dict(input=inp, error=repr(ex)))
        if types_homogeneous(dicts):
            chk.branch("dataframes:" + ("same-keys" if len({tuple(d) for d in dicts}) <= 1 else "different-key-sets"))
            try:
                arrow = obj.to_arrow().to_pylist()
                pand = obj.to_pandas().to_dict("records")
                pol = obj.to_polars().to_dicts()
                allkeys = []
                for d in dicts:
                    for k in d:
                        if k not in allkeys:
                            allkeys.append(k)
                for name, rows in (("to_arrow", arrow), ("to_pandas", pand), ("to_polars", pol)):
                    # a key absent from a row of to_dicts() may come back as null / NaN, never be dropped for the others
                    ok = len(rows) == len(dicts) and all(
                        set(a) == set(allkeys) and all(same_cell(a[k], b.get(k)) for k in allkeys)
                        for a, b in zip(rows, dicts))
                    if not ok:
                        chk.fail(f"{name} does not expose the rows of to_dicts in order (all fields of every row)",
                                 dict(input=inp, got=repr(rows)[:300], fields=allkeys))
            except Exception as ex:  # noqa: BLE001
                chk.fail("a dataframe conversion raised on rows with homogeneous value types per key",
                         dict(input=inp, error=repr(ex)))
        if j < 2:
            chk.sample(dict(kind="views", cls=cls, keys=ks, string=string[:300]))


def views_after_mutation(chk: Check, n):
    """render a result object, change it through its public mapping / list interface, render it again: every view
    must then show what to_dicts() now returns — compared with a freshly constructed object holding the same entries"""
    rng = chk.rng
    for _ in range(n):
        for cls, obj, homog in make_objects(rng):
            islist = hasattr(obj, "append") and not hasattr(obj, "keys")
            keys = None if rng.random() < 0.5 else list(obj.default_keys)[: rng.randint(1, 4)]
            chk.case(("views-after-mutation", cls, islist, keys is None))
            chk.branch("mutated:" + cls)
            try:
                before = (str(obj), obj.to_string(keys), obj.to_html(keys), obj.to_pretty_dicts(keys))
                if islist:
                    how = rng.choice(["append", "pop", "replace"]) if len(obj) > 1 else "append"
                    if how == "append":
                        obj.append(obj[0]._replace(power=0.123456, n_obs=777))
                    elif how == "pop":
                        obj.pop(0)
                    else:
                        obj[0] = obj[0]._replace(power=0.987654, n_obs=55)
                    fresh = type(obj)(list(obj.data))
                else:
                    ks = list(obj.keys())
                    how = rng.choice(["delete", "replace", "add"]) if len(ks) > 1 else "add"
                    other = make_objects(rng)
                    donor = next(o for c, o, _ in other if c == cls)
                    if how == "delete":
                        del obj[ks[0]]
                    elif how == "replace":
                        obj[ks[0]] = next(iter(donor.values()))
                    else:
                        newkey = ("zz", "new") if isinstance(ks[0], tuple) else "zz_new"
                        obj[newkey] = next(iter(donor.values()))
                    fresh = type(obj)(dict(obj.data))
                after = (str(obj), obj.to_string(keys), obj.to_html(keys), obj.to_pretty_dicts(keys))
                want = (str(fresh), fresh.to_string(keys), fresh.to_html(keys), fresh.to_pretty_dicts(keys))
                dicts_same = obj.to_dicts() == fresh.to_dicts() or repr(obj.to_dicts()) == repr(fresh.to_dicts())
            except Exception as ex:  # noqa: BLE001
                chk.fail("a view raised after the result object was changed through its public interface",
                         dict(cls=cls, error=repr(ex)))
                continue
            if not dicts_same:
                continue        # the fresh copy is not the same rows (cannot happen for UserDict / UserList); nothing to compare
            for name, a, w in zip(("str()", "to_string", "to_html", "to_pretty_dicts"), after, want):
                if a != w:
                    chk.fail(f"after a result object was rendered and then changed ({how}), {name} does not show the rows "
                             "to_dicts() now returns (it differs from a fresh object with the same entries)",
                             dict(cls=cls, change=how, keys=keys, got=str(a)[:300], expected=str(w)[:300],
                                  first_rendering=str(before[1])[:200]))
                    break


def wrapped_numbers(chk: Check, n):
    """results hold tea_tasting.utils.Float / Int values (zero-division-safe wrappers), not plain floats: rendering a
    wrapped number is rendering the number"""
    import tea_tasting.utils as tu
    rng = chk.rng
    for i in range(n):
        v = rng.uniform(-1, 1) * 10 ** rng.randint(-5, 7)
        if i % 4 == 0:
            v = -abs(v)
        if i % 7 == 3:
            v = float(rng.randint(-500, 500))
        sig = rng.choice([1, 2, 3, 5])
        pct = i % 3 == 0
        chk.case(("wrapped", sig, pct, v < 0))
        chk.branch("format:wrapped-number")
        try:
            plain = tu.format_num(v, sig=sig, pct=pct)
            wrapped = tu.format_num(tu.numeric(v), sig=sig, pct=pct)
            via_get = tu.get_and_format_num({"x": tu.numeric(v)}, "x")
            via_get_plain = tu.get_and_format_num({"x": v}, "x")
        except Exception as ex:  # noqa: BLE001
            chk.fail("format_num raised on a finite / special number", dict(value=v, sig=sig, pct=pct, error=repr(ex)))
            continue
        if plain != wrapped or via_get != via_get_plain:
            chk.fail("a number wrapped in tea_tasting.utils.Float / Int (what analysis results hold) is rendered differently "
                     "from the same plain number", dict(value=v, sig=sig, pct=pct, plain=plain, wrapped=wrapped,
                                                        get_and_format=[via_get_plain, via_get]))


def types_homogeneous(dicts):
    kinds = {}
    for d in dicts:
        for k, v in d.items():
            if v is None:
                continue
            kind = "num" if isinstance(v, (int, float)) and not isinstance(v, bool) else type(v).__name__
            if kinds.setdefault(k, kind) != kind:
                return False
    return True


def same_cell(a, b):
    if b is None:
        return a is None or (isinstance(a, float) and math.isnan(a))
    if isinstance(b, float) or isinstance(a, float):
        try:
            a, b = float(a), float(b)
        except (TypeError, ValueError):
            return False
        return (math.isnan(a) and math.isnan(b)) or a == b
    return a == b


def main():
    warnings.filterwarnings("ignore")
    import locale
    chk = Check(PROP)
    chk.trusted = common.BASE_TRUST + [
        "hand-written: Model/Format.lean — tied by string-for-string correspondence (format_num, to_pretty_dicts, "
        "to_string, to_html)",
        "FloatLib parameters: `ilog10` answers with the floor(math.log10(x)) values recorded in the real run (exact "
        "Int.log otherwise), `fl` is exact binary64 round-to-nearest-even written in Lean; CPython's round(x, p) and "
        "format(x, '.pf'/'.pe') are modelled as exact half-even decimal roundings of the binary value (CPython's "
        "documented correctly-rounded dtoa behaviour)",
        "locale lookup is outside the model: the C locale ('' / '.') is asserted; explicit separators are covered",
        "text -> number parsing for the parse-back clause is done by the harness (Fraction arithmetic), the theorems "
        "speak about the denoted value kept next to the text",
        "to_arrow / to_pandas / to_polars are third-party conversions of to_dicts(): compared row-wise, not modelled",
    ]
    chk.assumptions = ["sig >= 1; names and text values printable single-line strings; homogeneous value types per key "
                       "for the dataframe conversions"]
    lc = locale.localeconv()
    if lc.get("thousands_sep") != "" or lc.get("decimal_point") != ".":
        raise RuntimeError("the check expects the C locale")
    proved = chk.prove(extra_targets=["TeaTasting.Model.Format"])
    with common.Lock():
        common.lake_build(["TeaTasting.Model.Format", "TeaTasting.Driver.Proto"])
    q = chk.tier == "quick"
    format_runs(chk, 500 if q else 6000)
    views(chk, 4 if q else 40)
    views_after_mutation(chk, 3 if q else 30)
    wrapped_numbers(chk, 60 if q else 600)
    chk.cov["rule"] = ("numbers: specials, powers of ten 1e-12..1e12 +- 1 ulp, 5/9.5/9.95/9.995 x 10^k, the named boundary "
                       "values, random floats of all magnitudes / bit patterns, short decimals (ties), ints (also > 2^53); "
                       "sig in {1..5,8,12,15}; pct; 6 fixed-point ranges (None bounds); 6 separator pairs (incl. '.'/','); "
                       "views: all 5 result classes, markup / non-ASCII names, heterogeneous and absent keys, *_ci keys")
    chk.cov["proved"] = proved

    def extended():
        format_runs(chk, 1500)
        views(chk, 8)

    chk.finish(extended_search=extended)


def replay(path):
    print(open(path).read()[:4000])
    main()
