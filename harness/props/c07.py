"""C07 — every test result is internally coherent (interval, p-value, alternative).

Proof: lean/TeaTasting/Props/C07.lean over the generated `_analyze_stats`.
Tie: translator + exact correspondence on `_analyze_stats` itself (arbitrary aggregated statistics).
Search: the coherence relations asserted on real float results (real scipy), all cells and pairs of
levels; the laws assumed of scipy's t / norm are sampled on a grid.
"""
from __future__ import annotations

import math
from fractions import Fraction as F

import analysis
import common
import reuse
from analysis import ALTS, CELLS, FIELDS, parse_result, same
from common import Check, Driver, rand_frac, rs

PROP = "C07"


def exact_stats(chk: Check, n, family, with_gen):
    import stubs
    import tea_tasting as tt
    rng = chk.rng
    cases = []
    for k in range(n):
        alt, ev, ut = CELLS[k % len(CELLS)]
        cm = rand_frac(rng, -9, 9) or F(1, 3)
        tm = rand_frac(rng, -9, 9) or F(-2, 5)
        cv, tv = abs(rand_frac(rng, 0, 9)) + F(1, 7), abs(rand_frac(rng, 0, 9)) + F(1, 9)
        cn, tn = rng.randint(2, 400), rng.randint(2, 400)
        if k % 6 == 0:
            cn = 2
        cl = F(rng.randint(1, 99), 100)
        cases.append(dict(alt=alt, ev=ev, ut=ut, cl=cl, xs=[cm, cv, F(cn), tm, tv, F(tn)]))
    gl = [f"analyze_stats {family} x - - - {c['alt']} {rs(c['cl'])} {int(c['ev'])} {int(c['ut'])} 1/20 1 4/5 "
          + " ".join(rs(x) for x in c["xs"]) for c in cases]
    sl = [f"from_stats {family} {c['alt']} {rs(c['cl'])} {int(c['ev'])} {int(c['ut'])} "
          + " ".join(rs(x) for x in c["xs"]) for c in cases]
    gens = [parse_result(x) for x in Driver("DriverGen.lean").ask(gl)] if with_gen else [None] * n
    specs = [parse_result(x) for x in Driver("DriverSpec.lean").ask(sl)]
    for c, g, s in zip(cases, gens, specs):
        cm, cv, cn, tm, tv, tn = c["xs"]
        with stubs.exact_mode(family):
            m = tt.Mean("x", alternative=c["alt"], equal_var=c["ev"], use_t=c["ut"])
            m.confidence_level = c["cl"]
            try:
                r = m._analyze_stats(contr_mean=cm, contr_var=cv, contr_count=int(cn), treat_mean=tm,
                                     treat_var=tv, treat_count=int(tn))
                real = [getattr(r, f) for f in FIELDS]
            except Exception as ex:  # noqa: BLE001
                chk.fail("_analyze_stats raised on valid statistics",
                         dict(cell=[c["alt"], c["ev"], c["ut"]], stats=[str(x) for x in c["xs"]], error=repr(ex)))
                continue
        chk.case(("exact", c["alt"], c["ev"], c["ut"], str(c["cl"]), str(c["xs"])))
        chk.branch(f"exact:{c['alt']},{'pooled' if c['ev'] else 'welch'},{'t' if c['ut'] else 'z'}")
        inp = dict(cell=[c["alt"], c["ev"], c["ut"]], cl=str(c["cl"]), stats=[str(x) for x in c["xs"]], family=family)
        for f, a, b in zip(FIELDS, real, s):
            if not same(a, b):
                chk.fail(f"_analyze_stats field {f} differs from the textbook test from statistics",
                         dict(input=inp, field=f, observed=str(a), expected=str(b)))
                break
        if with_gen:
            for f, a, b in zip(FIELDS, real, g):
                if not same(a, b):
                    chk.disagree(f"Gen.analyze_stats vs _analyze_stats ({f})",
                                 dict(input=inp, field=f, impl=str(a), model=str(b)))
                    break
        chk.sample(dict(kind="exact _analyze_stats", **inp, pvalue=str(real[8])[:50]))


def float_relations(chk: Check, n):
    import tea_tasting as tt
    rng = chk.rng
    A = tt.aggr.Aggregates
    eps = 1e-9
    for k in range(n):
        ev, ut = bool(k & 1), bool(k & 2)
        cn, tn = rng.choice([2, 3, 10, 100, 10**4, 10**6]), rng.choice([2, 5, 50, 1000, 10**6])
        scale = 10.0 ** rng.randint(-3, 3)
        cm = rng.choice([-1, 1]) * rng.uniform(0.1, 10) * scale
        tm = cm * rng.choice([1.0, 1.0 + rng.uniform(-0.3, 0.3), -0.5]) + (rng.uniform(-1, 1) * scale if k % 3 == 0 else 0)
        cv, tv = rng.uniform(0.01, 5) * scale ** 2, rng.uniform(0.01, 5) * scale ** 2
        if k % 8 == 5:
            # means of equal sign that are tiny next to their standard errors: the log-scale half-width is in the
            # hundreds or thousands, exp() of it over- and underflows — the relative interval must still contain the
            # relative effect (lower bound -1 = exp(-huge) - 1, upper bound +inf)
            sgn = rng.choice([-1, 1])
            cm, tm = sgn * 1e-4 * rng.choice([1, 3, 0.01]), sgn * 2e-4 * rng.choice([1, 0.2, 5])
            cv, tv, cn, tn = rng.choice([1.0, 25.0]), rng.choice([1.0, 0.5]), rng.choice([2, 10, 40]), rng.choice([3, 10])
        c = A(cn, {"x": cm}, {"x": cv}, {})
        t = A(tn, {"x": tm}, {"x": tv}, {})
        cl1, cl2 = sorted(rng.choice([0.01, 0.1, 0.3, 0.5, 0.8, 0.9, 0.95, 0.99, rng.uniform(0.02, 0.98)])
                          for _ in range(2))
        if k == 0:      # corpus: the recorded finding K1 (one-sided, level 0.3) is replayed on every run
            cl1, cl2 = 0.3, 0.9
        res = {}
        try:
            for alt in ALTS:
                for cl in (cl1, cl2):
                    if k % 3 == 1:
                        # the options come from the configuration in force at construction ("for any input and options":
                        # however the options were given)
                        with tt.config_context(alternative=alt, equal_var=ev, use_t=ut, confidence_level=cl):
                            m_ = tt.Mean("x")
                    elif k % 3 == 2:
                        with tt.config_context(alternative=alt, confidence_level=cl):
                            m_ = tt.Mean("x", equal_var=ev, use_t=ut)
                    else:
                        m_ = tt.Mean("x", alternative=alt, equal_var=ev, use_t=ut, confidence_level=cl)
                    res[(alt, cl)] = m_.analyze({0: c, 1: t}, 0, 1)
        except Exception as ex:  # noqa: BLE001
            chk.fail("analysis raised on valid aggregates", dict(stats=[cm, cv, cn, tm, tv, tn], error=repr(ex)))
            continue
        inp = dict(stats=dict(cm=cm, cv=cv, cn=cn, tm=tm, tv=tv, tn=tn), equal_var=ev, use_t=ut, levels=[cl1, cl2])
        chk.case(("float", k), nontrivial=False)
        chk.branch("float-relations")
        tol = eps * (abs(cm) + abs(tm) + math.sqrt(cv / cn + tv / tn))
        for (alt, cl), r in res.items():
            def bad(msg, key=None, **kw):
                chk.fail(msg, dict(input=inp, alternative=alt, confidence_level=cl, result=r._asdict(), **kw),
                         finding_key=key)
            if abs(r.effect_size - (r.treatment - r.control)) > tol:
                bad("effect_size != treatment - control")
            if abs(r.rel_effect_size - (r.treatment / r.control - 1)) > eps * (1 + abs(r.rel_effect_size)):
                bad("rel_effect_size != treatment/control - 1")
            if not (0 <= r.pvalue <= 1):
                bad("p-value outside [0,1]")
            if alt == "greater" and not (r.effect_size_ci_upper == math.inf and r.rel_effect_size_ci_upper == math.inf):
                bad("interval not unbounded above for 'greater'")
            if alt == "less" and not (r.effect_size_ci_lower == -math.inf and r.rel_effect_size_ci_lower == -math.inf):
                bad("interval not unbounded below for 'less'")
            inside = r.effect_size_ci_lower - tol <= r.effect_size <= r.effect_size_ci_upper + tol
            if not inside:
                low = alt in ("greater", "less") and cl < 0.5
                bad("absolute interval does not contain the point estimate", key="K1" if low else None)
            if r.treatment / r.control > 0:
                rt = eps * (1 + abs(r.rel_effect_size))
                if not (r.rel_effect_size_ci_lower - rt <= r.rel_effect_size <= r.rel_effect_size_ci_upper + rt):
                    low = alt in ("greater", "less") and cl < 0.5
                    bad("relative interval does not contain the relative effect", key="K1" if low else None)
            # duality (away from the boundary)
            excl = not (r.effect_size_ci_lower <= 0 <= r.effect_size_ci_upper)
            margin = min(abs(r.effect_size_ci_lower), abs(r.effect_size_ci_upper))
            if margin > 10 * tol and abs(r.pvalue - (1 - cl)) > 1e-9:
                if (r.pvalue < 1 - cl) != excl:
                    bad("p < 1 - level  is not equivalent to  interval excludes 0")
        for cl in (cl1, cl2):
            g, l, two = res[("greater", cl)].pvalue, res[("less", cl)].pvalue, res[("two-sided", cl)].pvalue
            if abs(g + l - 1) > 1e-9:
                chk.fail("greater + less p-values do not sum to 1", dict(input=inp, greater=g, less=l))
            if abs(two - 2 * min(g, l)) > 1e-9 * max(two, 1e-300) + 1e-300 and abs(two - 2 * min(g, l)) > 1e-12:
                chk.fail("two-sided p-value != 2*min(greater, less)", dict(input=inp, two_sided=two, greater=g, less=l))
        for alt in ALTS:
            a, b = res[(alt, cl1)], res[(alt, cl2)]
            if not (b.effect_size_ci_lower <= a.effect_size_ci_lower + tol
                    and a.effect_size_ci_upper <= b.effect_size_ci_upper + tol):
                chk.fail("higher level does not contain the lower-level absolute interval",
                         dict(input=inp, alternative=alt, low=a._asdict(), high=b._asdict()))
            if a.treatment / a.control > 0:
                rt = eps * (1 + abs(a.rel_effect_size))
                if not (b.rel_effect_size_ci_lower <= a.rel_effect_size_ci_lower + rt
                        and a.rel_effect_size_ci_upper <= b.rel_effect_size_ci_upper + rt):
                    chk.fail("higher level does not contain the lower-level relative interval",
                             dict(input=inp, alternative=alt, low=a._asdict(), high=b._asdict()))


def sample_laws(chk: Check):
    """Dist.Laws on scipy.stats.t(df) / norm(): symmetry, sf = 1 - cdf, cdf(ppf q) = q, isf q = ppf(1-q) = -ppf q"""
    import numpy as np
    import scipy.stats as st
    worst = 0.0
    dists = [("norm", st.norm())] + [(f"t({df})", st.t(df=df)) for df in (0.7, 1, 2.5, 10, 100, 1e4, 1e7)]
    xs = np.array([-30, -5, -1.3, -0.2, 0, 0.4, 2, 7, 25.0])
    qs = np.array([1e-9, 1e-4, 0.01, 0.3, 0.5, 0.77, 0.975, 1 - 1e-6])
    for name, d in dists:
        errs = [np.max(np.abs(d.sf(xs) - (1 - d.cdf(xs)))), np.max(np.abs(d.cdf(-xs) - (1 - d.cdf(xs)))),
                np.max(np.abs(d.cdf(d.ppf(qs)) - qs) / qs), np.max(np.abs(d.isf(qs) + d.ppf(qs)) / (1 + np.abs(d.ppf(qs)))),
                0.0 if np.all(np.diff(d.cdf(np.sort(xs))) >= 0) else 1.0]
        worst = max(worst, float(max(errs)))
        chk.case(("law", name), nontrivial=False)
    chk.cov["scipy_dist_laws_worst_err"] = worst
    if worst > 1e-7:
        chk.notes.append(f"assumed Dist.Laws sampled on scipy: worst deviation {worst:.2e}")


def main():
    chk = Check(PROP)
    chk.trusted = common.BASE_TRUST + [
        "assumed of the primitives (hypotheses C07.Hyp / Prims.Laws, Dist.Laws): t(df>0) and norm are continuous, "
        "symmetric about 0 with strictly increasing cdf, sf = 1 - cdf, cdf(ppf q) = q, isf q = ppf (1-q); sqrt is "
        "the non-negative root; exp is positive, strictly increasing, exp 0 = 1, exp(-x) = 1/exp x — sampled on "
        "scipy each run (coverage.scipy_dist_laws_worst_err), not proved",
        "floating-point rounding is not modelled: the float relations are asserted with 1e-9 slack",
    ]
    chk.assumptions = ["counts >= 2, positive variances, non-zero means (degenerate statistics: C18)",
                       "0 < confidence_level < 1"]
    proved = chk.prove()
    have_model = chk.ensure_driver_model()
    n = 60 if chk.tier == "quick" else 600
    exact_stats(chk, n, 1, have_model)
    if chk.tier == "thorough":
        exact_stats(chk, 120, 2, have_model)
    float_relations(chk, 60 if chk.tier == "quick" else 1500)
    sample_laws(chk)
    analysis.float_far_tail(chk, 12 if chk.tier == "quick" else 120, clauses=("duality",))
    analysis.float_duality_boundary(chk, 24 if chk.tier == "quick" else 240)
    reuse.metric_object_reuse(chk, 24 if chk.tier == "quick" else 240, "coherence of a result must not depend on earlier analyses")
    chk.cov["rule"] = ("exact: random rational (mean, var, count) per variant x 12 cells x level, real _analyze_stats "
                       "vs Gen and Spec at Q; float: random valid aggregates (counts 2..1e6, scales 1e-3..1e3) x 3 "
                       "alternatives x pairs of levels, all coherence relations of the property asserted")
    chk.cov["proved"] = proved

    def extended():
        exact_stats(chk, 400, 1, False)
        float_relations(chk, 1500)

    chk.finish(extended_search=extended)


def replay(path):
    print(open(path).read()[:4000])
    main()
