"""C10 — adjust_fdr / adjust_fwer implement the named procedures exactly and purely.

Proof: lean/TeaTasting/Props/C10.lean (loops hand-modelled, `adjust` functions generated).
Tie: translator (adjust) + exact correspondence (real functions on Fraction p-values vs the model
at Q).  Search: real outcome vs the textbook procedure of Spec/Multiplicity.lean; purity and
order-independence monitored directly.
"""
from __future__ import annotations

import copy
import math
from collections import namedtuple
from fractions import Fraction as F

import common
from common import Check, Driver, rs

PROP = "C10"
R = namedtuple("R", ["pvalue", "note"])
PROCS = [("fdr", False, None, "bh"), ("fdr", True, None, "by"),
         ("fwer", False, "bonferroni", "hochberg-bonferroni"), ("fwer", False, "sidak", "hochberg-sidak"),
         ("fwer", True, "bonferroni", "holm-bonferroni"), ("fwer", True, "sidak", "holm-sidak")]


def gen_pvalues(rng, m, alpha):
    mode = rng.choice(["random", "ties", "boundary", "extremes", "small", "tiny"])
    ps = []
    for k in range(m):
        if mode == "random":
            ps.append(F(rng.randint(0, 1000), 1000))
        elif mode == "ties":
            ps.append(F(rng.choice([1, 2, 5, 90]), 100))
        elif mode == "boundary":       # values exactly on the rejection boundaries alpha*k/m, alpha/(m-k+1)
            kk = rng.randint(1, m)
            ps.append(min(F(1), rng.choice([alpha * kk / m, alpha / (m - kk + 1), alpha, alpha * kk / m + F(1, 10**6)])))
        elif mode == "tiny":           # distinct p-values far below any rounding granularity (and exact zeros)
            ps.append(rng.choice([F(0), F(rng.randint(1, 9), 10**rng.randint(13, 40)), F(1, 10**300), F(3, 10**13)]))
        elif mode == "extremes":
            ps.append(rng.choice([F(0), F(1), F(1, 10**9), F(999, 1000), alpha]))
        else:
            ps.append(F(rng.randint(0, 60), 1000))
    return ps, mode


def build_results(rng, ps):
    import tea_tasting as tt
    n_exp = rng.randint(1, min(4, len(ps)))
    cuts = sorted(rng.sample(range(1, len(ps)), n_exp - 1)) if n_exp > 1 else []
    groups = [ps[a:b] for a, b in zip([0] + cuts, cuts + [len(ps)])]
    # some names are substrings of others ("m_", "m_a" in "m_ab"): a metrics selection given as one string must
    # select exactly that name, not every name contained in it
    names = ["m_a", "m_ab", "m_", "m_abc", "m_e", "m_f", "m_g", "m_h", "m_i", "m_j", "m_k", "m_l"]
    results, keys = {}, []
    for gi, g in enumerate(groups):
        er = {}
        for mi, p in enumerate(g):
            nm = names[mi] if rng.random() < 0.7 else names[(mi + gi) % len(names)]
            while nm in er:
                nm = names[(names.index(nm) + 1) % len(names)]
            er[nm] = R(p, "x") if rng.random() < 0.5 else {"pvalue": p, "extra": [1, 2]}
            keys.append(((0, gi + 1), nm))
        results[(0, gi + 1)] = tt.experiment.ExperimentResult(er)
    if n_exp == 1 and rng.random() < 0.5:
        only = results[(0, 1)]
        return only, [("-", nm) for _, nm in keys]
    return results, keys


def call_real(kind, dep, method, results, metrics, alpha):
    import tea_tasting as tt
    import tea_tasting.config as cfg
    saved = cfg._global_config["alpha"]
    cfg._global_config["alpha"] = alpha          # a Fraction: auto_check would insist on a float argument
    try:
        if kind == "fdr":
            return tt.adjust_fdr(results, metrics, arbitrary_dependence=dep)
        return tt.adjust_fwer(results, metrics, arbitrary_dependence=dep, method=method)
    finally:
        cfg._global_config["alpha"] = saved


def close(a, b, tol=1e-12):
    if isinstance(a, F) and isinstance(b, F):
        return a == b
    fa, fb = float(a), float(b)
    return abs(fa - fb) <= tol * max(abs(fa), abs(fb)) + 1e-300


def boundary_indices(c, pv):
    """indices of the p-values whose comparison with a rejection threshold is decided by float rounding in this
    run: p (an exact rational here) is within 1e-12 of a threshold that the real code holds as a FLOAT different
    from p.  Thresholds the code holds exactly (Bonferroni with a rational alpha: `alpha / int`) and float
    thresholds that equal p exactly are NOT ambiguous."""
    m = len(pv)
    alpha = c["alpha"]
    thr = []
    h = sum(1 / i for i in range(1, m + 1))
    for k in range(1, m + 1):
        if c["kind"] == "fdr":
            coef = (m * h if c["dep"] else m) / k            # as `_Benjamini.adjust`: a float
            thr.append(alpha / coef)
        elif c["method"] == "bonferroni":
            thr.append(alpha / (m - k + 1))                  # exact
        else:
            thr.append(1 - (1 - alpha) ** (1 / (m - k + 1)))
    out = set()
    for j, p in enumerate(pv):
        for t in thr:
            if abs(float(p) - float(t)) <= 1e-12 and F(t) != F(p):
                out.add(j)
    return out


def run_cases(chk: Check, n, with_model=True):
    import tea_tasting as tt
    rng = chk.rng
    cases = []
    for i in range(n):
        kind, dep, method, proc = PROCS[i % len(PROCS)]
        alpha = F(rng.choice([1, 5, 10, 20, 50, 3]), 100)
        m = rng.randint(1, 12)
        ps, mode = gen_pvalues(rng, m, alpha)
        results, keys = build_results(rng, ps)
        sel = None
        r = rng.random()
        all_names = sorted({nm for _, nm in keys})
        if r < 0.2:
            sel = rng.choice(all_names)
        elif r < 0.35:
            sel = set(rng.sample(all_names, rng.randint(1, len(all_names))))
        elif r < 0.45:
            sel = tuple(rng.sample(all_names, rng.randint(1, len(all_names))))
        cases.append(dict(kind=kind, dep=dep, method=method, proc=proc, alpha=alpha, ps=ps, mode=mode,
                          results=results, keys=keys, sel=sel))
    # the family: selected metrics across all experiments, in iteration order
    for c in cases:
        s = c["sel"]
        want = None if s is None else ({s} if isinstance(s, str) else set(s))
        c["fam"] = [(k, p) for k, p in zip(c["keys"], c["ps"]) if want is None or k[1] in want]
    live = [c for c in cases if c["fam"]]
    mlines = [(f"fdr {rs(c['alpha'])} {int(c['dep'])} " if c["kind"] == "fdr"
               else f"fwer {rs(c['alpha'])} {int(c['dep'])} {c['method']} ")
              + f"{len(c['fam'])} " + " ".join(rs(p) for _, p in c["fam"]) for c in live]
    slines = [f"mult {c['proc']} {rs(c['alpha'])} {len(c['fam'])} " + " ".join(rs(p) for _, p in c["fam"])
              for c in live]
    # Model/Family.lean: the family of _copy_results and the write-back structure, from the nested input
    def fam_line(c):
        res = c["results"]
        exps = list(res.items()) if isinstance(res, dict) else [("-", res)]
        s_ = c["sel"]
        selw = "-" if s_ is None else (f"1 {s_}" if isinstance(s_, str) else f"{len(s_)} " + " ".join(sorted(s_) if isinstance(s_, set) else s_))
        body = " ".join(f"e{j} {len(er)} " + " ".join(f"{nm} {rs((v['pvalue'] if isinstance(v, dict) else v.pvalue))}"
                                                       for nm, v in er.items()) for j, (_, er) in enumerate(exps))
        return f"family {selw} {len(exps)} {body}"
    fout = Driver("DriverMult.lean").ask([fam_line(c) for c in live]) if with_model else [None] * len(live)
    for c, fo in zip(live, fout):
        c["model_family"] = fo
    sout = Driver("DriverSpec.lean").ask(slines)
    mout = Driver("DriverMult.lean").ask(mlines) if with_model else [None] * len(live)
    for c, so, mo in zip(live, sout, mout):
        chk.case((c["proc"], c["mode"], len(c["fam"]), str(c["sel"])[:30], tuple(p for _, p in c["fam"])))
        chk.branch(f"proc:{c['proc']}")
        chk.branch(f"pvalues:{c['mode']}")
        chk.branch("select:" + ("all" if c["sel"] is None else type(c["sel"]).__name__))
        inp = dict(procedure=c["proc"], alpha=str(c["alpha"]), selection=repr(c["sel"]),
                   family=[(str(k), str(p)) for k, p in c["fam"]],
                   all=[(str(k), str(p)) for k, p in zip(c["keys"], c["ps"])])
        before = copy.deepcopy(c["results"])
        sel_before = copy.deepcopy(c["sel"])
        ids_before = {id(v) for er in (c["results"].values() if isinstance(c["results"], dict) else [c["results"]])
                      for v in er.values()}
        try:
            out = call_real(c["kind"], c["dep"], c["method"], c["results"], c["sel"], c["alpha"])
        except Exception as ex:  # noqa: BLE001
            chk.fail("adjust raised on a valid family", dict(input=inp, error=repr(ex)))
            continue
        # purity
        if repr(before) != repr(c["results"]):
            chk.fail("the input results were modified", dict(input=inp))
        if c["sel"] != sel_before or type(c["sel"]) is not type(sel_before):
            chk.fail("the selection passed as `metrics` was modified by the call (the caller's own object)",
                     dict(input=inp, before=repr(sel_before), after=repr(c["sel"])))
            c["sel"] = sel_before
        for er in out.values():
            for v in er.values():
                if id(v) in ids_before:
                    chk.fail("an output metric result aliases an input object", dict(input=inp))
        # family = exactly the selected metrics
        got_keys = [(ek, nm) for ek, er in out.items() for nm in er]
        if got_keys != [k for k, _ in c["fam"]]:
            chk.fail("the adjusted family is not exactly the selected metrics over all experiments",
                     dict(input=inp, got=[str(k) for k in got_keys]))
            continue
        if c.get("model_family") is not None:
            fam_part, back_part = c["model_family"].split(" | ")
            mfam = [tuple(x.split("=")) for x in fam_part.split()[1:]]
            rfam = [(nm, rs(out[ek][nm]["pvalue"])) for ek, nm in got_keys]
            rback = " ".join(f"e{j}[" + ",".join(f"{nm}:{k_}" for nm, k_ in
                                                    zip(er, range(sum(len(e2) for e2 in list(out.values())[:j]), 10**6))) + "]"
                             for j, er in enumerate(out.values()))
            if mfam != rfam or back_part.strip() != rback:
                chk.disagree("family / write-back: Model/Family.lean vs the real adjust_* output",
                             dict(input=inp, model=c["model_family"], real_family=rfam, real_structure=rback))
        lacking = [(ek, nm) for ek, nm in got_keys
                   if not all(f in out[ek][nm] for f in ("pvalue_adj", "alpha_adj", "null_rejected", "pvalue"))]
        if lacking:
            chk.fail("a selected hypothesis comes back without pvalue_adj / alpha_adj / null_rejected (it was left out of "
                     "the family)", dict(input=inp, hypotheses=[str(k) for k in lacking]))
            continue
        real = [(out[ek][nm]["pvalue_adj"], out[ek][nm]["alpha_adj"], out[ek][nm]["null_rejected"],
                 out[ek][nm]["pvalue"]) for ek, nm in got_keys]
        def mismatch(line, pvals, tol):
            """first field in which the real output differs from a driver line (None: agrees)"""
            toks = line.split()
            sidak = sidak_expected([float(x) for x in pvals], float(c["alpha"]), c["dep"]) \
                if c["method"] == "sidak" else None
            exp = [(toks[3 * j], toks[3 * j + 1], int(toks[3 * j + 2])) for j in range(len(real))]
            for j, ((pa, aa, rej, p), (epa, eaa, erej)) in enumerate(zip(real, exp)):
                epa = F(epa)
                if not close(pa, epa, tol):
                    return j, ("pvalue_adj", pa, epa)
                if c["method"] != "sidak":
                    eaa = F(eaa)
                    if not close(aa, eaa, tol):
                        return j, ("alpha_adj", aa, eaa)
                    if abs(float(p) - float(eaa)) > 1e-12 and int(rej) != erej:
                        return j, ("null_rejected", rej, erej)
                else:
                    # Sidak's alpha_adj = 1-(1-alpha)**(1/coef) is a real power: the Q driver cannot evaluate it;
                    # the float value of the textbook rule is computed by `sidak_expected`
                    ea, er_ = sidak[j]
                    if not close(aa, ea, max(tol, 1e-12)):
                        return j, ("alpha_adj", aa, ea)
                    if abs(float(p) - ea) > 1e-12 and int(rej) != er_:
                        return j, ("null_rejected", rej, er_)
            return None

        pv = [x[3] for x in real]
        amb = boundary_indices(c, pv)
        for which, line, drv in (("spec", so, "DriverSpec.lean"), ("model", mo, "DriverMult.lean")):
            if line is None:
                continue
            bad = mismatch(line, pv, 1e-12)
            if bad is not None and amb:
                # The thresholds of the real code are floats (`m / k` is a float division) while this run feeds exact
                # rationals: a p-value EXACTLY on a threshold is decided by the last bit.  Both resolutions of each
                # such tie are legitimate; the output must agree with one of them for the whole family.
                chk.branch("boundary-ambiguous")
                for sign in (-1, 1):
                    pert = [min(F(1), max(F(0), p + sign * (abs(p) * F(1, 10**10) + F(1, 10**15)))) if j in amb else p
                            for j, p in enumerate(pv)]
                    head = (f"mult {c['proc']} {rs(c['alpha'])} " if which == "spec" else
                            (f"fdr {rs(c['alpha'])} {int(c['dep'])} " if c["kind"] == "fdr"
                             else f"fwer {rs(c['alpha'])} {int(c['dep'])} {c['method']} "))
                    alt_line = Driver(drv).ask([head + f"{len(pert)} " + " ".join(rs(p) for p in pert)])[0]
                    if mismatch(alt_line, pert, 1e-8) is None:
                        bad = None
                        break
            if bad is not None:
                j, msg = bad
                rep = dict(input=inp, hypothesis=str(got_keys[j]), field=msg[0], observed=str(msg[1]),
                           expected=str(msg[2]), boundary_pvalues=[str(pv[i]) for i in sorted(amb)])
                if which == "spec":
                    chk.fail(f"{c['proc']}: {msg[0]} differs from the documented procedure", rep)
                else:
                    chk.disagree(f"{c['proc']}: model vs real {msg[0]}", rep)
        # internal relations on the real output
        for (pa, aa, rej, p), k in zip(real, got_keys):
            if int(rej) != int(p <= aa):
                chk.fail("null_rejected != (pvalue <= alpha_adj)", dict(input=inp, hypothesis=str(k)))
            if abs(float(pa) - float(c["alpha"])) > 1e-9 and int(rej) != int(pa <= c["alpha"]):
                chk.fail("null_rejected != (pvalue_adj <= alpha)", dict(input=inp, hypothesis=str(k)))
            if not (float(p) - 1e-12 <= float(pa) <= 1 + 1e-12):
                chk.fail("pvalue_adj outside [pvalue, 1]", dict(input=inp, hypothesis=str(k), pvalue_adj=str(pa)))
        order = sorted(range(len(real)), key=lambda j: real[j][3])
        for a, b in zip(order, order[1:]):
            if float(real[a][0]) > float(real[b][0]) + 1e-12:
                chk.fail("adjusted p-values do not preserve the order of the raw ones", dict(input=inp))
                break
        # order independence
        if isinstance(c["results"], dict) and len(real) > 1:
            items = list(c["results"].items())
            rng.shuffle(items)
            shuffled = {}
            for ek, er in items:
                inner = list(er.items())
                rng.shuffle(inner)
                shuffled[ek] = tt.experiment.ExperimentResult(dict(inner))
            out2 = call_real(c["kind"], c["dep"], c["method"], shuffled, c["sel"], c["alpha"])
            pvals = [p for _, p in c["fam"]]
            if [(ek, nm) for ek in out for nm in out[ek]] != [(ek, nm) for ek in out if ek in out2 for nm in out[ek] if nm in out2[ek]]:
                chk.fail("a second call on the same results in another order adjusts a different family",
                         dict(input=inp, first=[str(k) for k in got_keys],
                              second=[str((ek, nm)) for ek, er in out2.items() for nm in er]))
                continue
            for (ek, nm), (pa, aa, rej, p) in zip(got_keys, real):
                o2 = out2[ek][nm]
                if not close(o2["pvalue_adj"], pa, 1e-12) or int(o2["null_rejected"]) != int(rej):
                    chk.fail("pvalue_adj / null_rejected depend on the order of experiments or metrics",
                             dict(input=inp, hypothesis=str((ek, nm))))
                    break
                if not close(o2["alpha_adj"], aa, 1e-12):
                    tied = pvals.count(p) > 1
                    chk.fail("alpha_adj depends on the order of experiments or metrics",
                             dict(input=inp, hypothesis=str((ek, nm)), tied=tied, a=str(aa), b=str(o2["alpha_adj"])),
                             finding_key="K2" if tied else None)
                    break
        if len(chk.cov["samples"]) < 4:
            chk.sample(dict(**{k: v for k, v in inp.items() if k != "all"},
                            out=[(str(a), str(b), int(r_)) for a, b, r_, _ in real][:6]))


def sidak_expected(ps, alpha, stepdown):
    """textbook alpha_adj and rejection flags of the Sidak step-up / step-down rule, in floating point
    (supporting oracle for the two fields that need a real power)"""
    m = len(ps)
    out = [None] * m
    if not stepdown:
        order = sorted(range(m), key=lambda j: -ps[j])
        first = None
        for i, j in enumerate(order):
            thr = 1 - (1 - alpha) ** (1 / (i + 1))
            if first is None and ps[j] <= thr:
                first = thr
            aa = thr if first is None else max(thr, first)
            out[j] = (aa, int(ps[j] <= aa))
    else:
        order = sorted(range(m), key=lambda j: ps[j])
        first = None
        for i, j in enumerate(order):
            thr = 1 - (1 - alpha) ** (1 / (m - i))
            if first is None and ps[j] > thr:
                first = thr
            aa = thr if first is None else min(thr, first)
            out[j] = (aa, int(ps[j] <= aa))
    return out


def corpus_k2(chk):
    """the recorded finding K2 replayed on every run: tied p-values, alpha_adj follows the input order"""
    import tea_tasting as tt
    a = {(0, 1): tt.experiment.ExperimentResult({"m_a": R(F(9, 10), "x"), "m_b": R(F(9, 10), "x")})}
    b = {(0, 1): tt.experiment.ExperimentResult({"m_b": R(F(9, 10), "x"), "m_a": R(F(9, 10), "x")})}
    o1 = call_real("fdr", False, None, a, None, F(1, 20))
    o2 = call_real("fdr", False, None, b, None, F(1, 20))
    chk.case(("corpus", "K2"))
    if o1[(0, 1)]["m_a"]["alpha_adj"] != o2[(0, 1)]["m_a"]["alpha_adj"]:
        chk.fail("alpha_adj depends on the order of experiments or metrics",
                 dict(input="p = [9/10, 9/10], BH, alpha 1/20", a=str(o1[(0, 1)]["m_a"]["alpha_adj"]),
                      b=str(o2[(0, 1)]["m_a"]["alpha_adj"]), tied=True), finding_key="K2")


def main():
    chk = Check(PROP)
    chk.trusted = common.BASE_TRUST + [
        "hand-written: Model/Multiplicity.lean (the two loops as recursions over the stably sorted list, unsort) — "
        "tied by exact correspondence; generated: the three adjust functions and _Benjamini's family size",
        "BH/BY coefficients are int/int floats in the code and Sidak's alpha_adj is a real power: those fields are "
        "compared to 1e-12 relative against the model's exact value / through the rejection flag away from ties",
        "Sidak instances of the theorems assume the real power laws (not proved); Python's sorted() is a stable sort "
        "(modelled by List.mergeSort)",
        "purity (inputs unmodified, no aliasing) is not expressible in the pure model: deep-compared on every case",
    ]
    chk.assumptions = ["p-values in [0,1], 0 < alpha < 1", "full permutation invariance is proved for the sorted family "
                       "and for neighbouring ties (stepup_tie); for arbitrary permutations it is checked, not proved"]
    proved = chk.prove(extra_targets=["TeaTasting.Model.Multiplicity", "TeaTasting.Spec.Multiplicity"])
    with common.Lock():
        ok, _ = common.lake_build(["TeaTasting.Model.Multiplicity", "TeaTasting.Spec.Multiplicity",
                                   "TeaTasting.Spec.Fast", "TeaTasting.Driver.Stubs"])
        if not ok:
            chk.notes.append("regenerated Gen does not type-check; correspondence uses the snapshot model")
            common.use_snapshot()
            common.lake_build(["TeaTasting.Model.Multiplicity", "TeaTasting.Spec.Multiplicity"])
    corpus_k2(chk)
    run_cases(chk, 150 if chk.tier == "quick" else 3000)
    chk.cov["rule"] = ("random families of 1..12 p-values (random / tied / on the rejection boundaries / 0 and 1 / small) "
                       "spread over 1..4 experiment results (NamedTuple or dict metric results), 6 procedures, alpha in "
                       "{.01,.03,.05,.1,.2,.5}, selections None / str / set / tuple; non-trivial = distinct "
                       "(procedure, mode, family)")
    chk.cov["proved"] = proved

    def extended():
        run_cases(chk, 1500, with_model=False)

    chk.finish(extended_search=extended)


def replay(path):
    print(open(path).read()[:4000])
    main()
