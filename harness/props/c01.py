"""C01 — per-variant aggregates equal the exact sample statistics on every backend.

Proof: lean/TeaTasting/Props/C01.lean (pipelines of Model/Query.lean evaluate to the sample statistics).
Tie: STRUCTURAL — the Narwhals pipeline and both Ibis operation graphs are captured from the real aggr.py
(class-level wrappers, nothing executed for the native branch) and compared token by token with what the
model builds for the same request.  Float mode: real read_aggregates on 5 input kinds against the exact
rational statistics (Lean), with a conditioning-scaled tolerance.
Search: a captured pipeline that differs is EVALUATED by the Lean driver on small rational tables and
compared with the specification (works for the native branch too, which cannot be executed here).
"""
from __future__ import annotations

import math
from fractions import Fraction as F

import backends
import capture
import analysis
import common
import reuse
from common import Check, Driver, rs

PROP = "C01"
U = 2.0 ** -53


def spec_wire(has_count, mean, var, cov):
    return (f"{int(has_count)} {len(mean)} {' '.join(mean)} {len(var)} {' '.join(var)} {len(cov)} "
            + " ".join(f"{a} {b}" for a, b in cov)).replace("  ", " ").strip()


def table_wire(names, keys, rows):
    return (f"{len(names)} {' '.join(names)} {len(rows)} "
            + " ".join(f"{k} " + " ".join(rs(v) for v in r) for k, r in zip(keys, rows)))


def rand_spec(rng, names):
    mean = [rng.choice(names) for _ in range(rng.randint(0, 3))]
    var = [rng.choice(names) for _ in range(rng.randint(0, 3))]
    cov = [(rng.choice(names), rng.choice(names)) for _ in range(rng.randint(0, 3))]
    cov = [p for p in cov if p[0] != p[1] or rng.random() < 0.3]
    if rng.random() < 0.3 and cov:
        cov.append((cov[0][1], cov[0][0]))          # the reversed pair
    hc = rng.random() < 0.7
    if not (hc or mean or var or cov):
        hc = True                   # a request for nothing at all is outside the property (Narwhals rejects an empty select)
    return hc, mean, var, cov


def structural(chk: Check, n):
    import ibis
    import pyarrow as pa
    import tea_tasting as tt
    rng = chk.rng
    names = ["x", "y", "zz", "a10", "a9"]
    jobs = []
    for i in range(n):
        hc, mean, var, cov = rand_spec(rng, names)
        grouped = i % 3 != 0
        intcols = i % 2 == 0
        jobs.append((hc, mean, var, cov, grouped, intcols))
    lines = []
    for hc, mean, var, cov, grouped, _ in jobs:
        sw = spec_wire(hc, mean, var, cov)
        lines += [f"build nw {int(grouped)} {sw}", f"build native {int(grouped)} {sw}",
                  f"build fallback {int(grouped)} {sw}"]
    out = Driver("DriverQuery.lean").ask(lines)
    mismatches = []
    for j, (hc, mean, var, cov, grouped, intcols) in enumerate(jobs):
        g = "variant" if grouped else None
        typ = "int64" if intcols else "float64"
        t = ibis.table({"variant": "int64", **{c: typ for c in names}}, name="t")
        data = pa.table({"variant": [0, 0, 1, 1], **{c: ([1, 2, 3, 5] if intcols else [1.0, 2.0, 3.0, 5.0])
                                                      for c in names}})
        kw = dict(has_count=hc, mean_cols=mean, var_cols=var, cov_cols=cov)
        got = {}
        try:
            with capture.narwhals_capture() as rec:
                tt.aggr.read_aggregates(data, g, **kw)
            got["nw"] = capture.query_wire(rec.stages, g)
            for kind, native in (("native", True), ("fallback", False)):
                with capture.ibis_capture(native) as irec:
                    tt.aggr.read_aggregates(t, g, **kw)
                got[kind] = capture.query_wire(capture.ibis_stages(irec[-1][0]), g)
        except Exception as ex:  # noqa: BLE001
            chk.disagree("the pipeline built by aggr.py could not be captured / canonicalised",
                         dict(spec=kw, grouped=grouped, error=repr(ex)))
            continue
        for k, kind in enumerate(("nw", "native", "fallback")):
            model = out[3 * j + k].strip()
            real = got[kind].strip()
            if kind != "nw" and not intcols:        # Ibis elides casts of columns that are float already
                model, real = model.replace("cast ", ""), real.replace("cast ", "")
            chk.case(("structural", kind, grouped, intcols, spec_wire(hc, sorted(set(mean)), sorted(set(var)),
                                                                       sorted({tuple(sorted(p)) for p in cov}))))
            chk.branch(f"pipeline:{kind}:{'grouped' if grouped else 'ungrouped'}")
            if model != real:
                chk.disagree(f"{kind} pipeline built by aggr.py differs from the model's",
                             dict(spec=kw, grouped=grouped, int_columns=intcols, impl=real, model=model))
                mismatches.append((kind, kw, grouped, got[kind]))
        if j < 2:
            chk.sample(dict(kind="captured narwhals pipeline", spec=kw, grouped=grouped, pipeline=got["nw"][:300]))
    return mismatches


def evaluate_captured(chk: Check, mismatches):
    """a captured pipeline that differs from the model is evaluated in Lean on small rational tables"""
    rng = chk.rng
    names = ["x", "y", "zz", "a10", "a9"]
    lines, meta = [], []
    for kind, kw, grouped, wire in mismatches[:20]:
        for _ in range(6):
            nrows = rng.randint(4, 9)
            keys = [rng.randint(0, 2) if grouped else 0 for _ in range(nrows)]
            for v in set(keys):
                if keys.count(v) < 2:
                    keys += [v]
            rows = [[F(rng.randint(-9, 9), rng.choice([1, 2, 3])) for _ in names] for _ in keys]
            sw = spec_wire(kw["has_count"], kw["mean_cols"], kw["var_cols"], kw["cov_cols"])
            tw = table_wire(names, keys, rows)
            lines += [f"evalq {sw} {wire} {tw}", f"specq {int(grouped)} {sw} {tw}"]
            meta.append((kind, kw, grouped, wire, keys, rows))
    if not lines:
        return
    out = Driver("DriverQuery.lean").ask(lines)
    for i, (kind, kw, grouped, wire, keys, rows) in enumerate(meta):
        got, want = out[2 * i], out[2 * i + 1]
        if not kw["has_count"]:
            pass
        if got != want:
            chk.fail(f"the {kind} pipeline built by aggr.py does not compute the sample statistics",
                     dict(pipeline=wire, spec=kw, grouped=grouped, keys=keys, rows=[[str(v) for v in r] for r in rows],
                          evaluated=got, expected=want))
            return


def gen_dataset(rng, i):
    import numpy as np
    nv = rng.randint(1, 5)
    idkind = ("int", "str", "bool")[i % 3]
    if idkind == "bool":
        nv = min(nv, 2)
    ids = {"int": [3, 0, 7, 11, -2], "str": ["b", "a", "ctl", "zz", "A"], "bool": [False, True]}[idkind][:nv]
    sizes = [rng.choice([2, 3, 5, 40, 400]) for _ in ids]
    mode = ("plain", "offset", "ties", "bigint", "tiny")[i % 5]
    if i % 11 == 5:
        # > 65536 rows in total: engines split the table into batches (small integer values keep the exact side cheap)
        sizes = [70000 // len(ids) + rng.randint(1, 999) for _ in ids]
        mode = "ties"
    variant, cols = [], {"x": [], "y": [], "k": []}
    nprng = np.random.default_rng(rng.randint(0, 2**31))
    for v, sz in zip(ids, sizes):
        variant += [v] * sz
        if mode == "plain":
            x = nprng.normal(3, 2, sz)
            y = 0.5 * x + nprng.normal(0, 1, sz)
        elif mode == "offset":          # a large common offset with unit spread: one-pass formulas lose everything
            off = float(10 ** rng.randint(6, 9))
            x = off + nprng.normal(0, 1, sz)
            y = -off + nprng.normal(0, 1, sz) + 0.3 * (x - off)
        elif mode == "ties":
            x = nprng.integers(0, 3, sz).astype(float)
            y = nprng.integers(0, 2, sz).astype(float)
        elif mode == "bigint":
            x = nprng.integers(2**40, 2**41, sz).astype(float)
            y = nprng.integers(-2**30, 2**30, sz).astype(float)
        else:
            x = nprng.normal(0, 1e-6, sz)
            y = nprng.normal(1e-3, 1e-6, sz)
        cols["x"] += x.tolist()
        cols["y"] += y.tolist()
        cols["k"] += nprng.integers(-5, 50, sz).tolist()
    order = list(range(len(variant)))
    rng.shuffle(order)
    return idkind, mode, ids, [variant[j] for j in order], {c: [cols[c][j] for j in order] for c in cols}


def float_mode(chk: Check, n, kinds):
    import numpy as np
    import tea_tasting as tt
    rng = chk.rng
    jobs = []
    for i in range(n):
        idkind, mode, ids, variant, cols = gen_dataset(rng, i)
        grouped = i % 4 != 3
        hc, mean, var, cov = rng.random() < 0.8, ["x", "k"], ["x", "y"][: rng.randint(1, 2)], [("y", "x"), ("k", "x")][: rng.randint(0, 2)]
        jobs.append((idkind, mode, ids, variant, cols, grouped, hc, mean, var, cov))
    lines = []
    for idkind, mode, ids, variant, cols, grouped, hc, mean, var, cov in jobs:
        keymap = {v: j for j, v in enumerate(sorted(set(variant), key=lambda z: (str(type(z)), z)))}
        rows = [[F(cols[c][j]) for c in ("x", "y", "k")] for j in range(len(variant))]
        lines.append(f"specq {int(grouped)} {spec_wire(hc, mean, var, cov)} "
                     + table_wire(["x", "y", "k"], [keymap[v] if grouped else 0 for v in variant], rows))
    out = Driver("DriverQuery.lean").ask(lines)
    worst = 0.0
    for (idkind, mode, ids, variant, cols, grouped, hc, mean, var, cov), line in zip(jobs, out):
        keymap = {v: j for j, v in enumerate(sorted(set(variant), key=lambda z: (str(type(z)), z)))}
        inv = {j: v for v, j in keymap.items()}
        exact = {}
        vcov = sorted({tuple(sorted(p)) for p in cov})
        for part in line.split(";"):
            k, vals = part.split("|")
            vals = [F(t) for t in vals.split()]
            pos = 0
            d = {}
            if hc:
                d["count"] = vals[0]
                pos = 1
            for c in sorted(set(mean), key=mean.index):
                d[("mean", c)] = vals[pos]
                pos += 1
            for c in sorted(set(var), key=var.index):
                d[("var", c)] = vals[pos]
                pos += 1
            for p in [tuple(sorted(q)) for q in cov]:
                if p not in [k_[1] for k_ in d if isinstance(k_, tuple) and k_[0] == "cov"]:
                    d[("cov", p)] = vals[pos]
                    pos += 1
            exact[inv[int(k)] if grouped else None] = d
        inputs = backends.make_inputs({"variant": variant, **cols}, kinds)
        for kind, data in inputs.items():
            if kind == "ibis-sqlite" and idkind == "bool":
                continue            # SQLite has no boolean type: ids come back as 0/1 (documented limitation of the engine)
            chk.case(("float", kind, idkind, mode, grouped, len(variant)))
            chk.branch(f"input:{kind}")
            chk.branch(f"data:{mode}")
            chk.branch(f"ids:{idkind}")
            inp = dict(input=kind, ids=idkind, mode=mode, grouped=grouped, rows=len(variant), has_count=hc, mean=mean,
                       var=var, cov=cov, seed=chk.seed)
            try:
                res = tt.aggr.read_aggregates(data, "variant" if grouped else None, has_count=hc, mean_cols=mean,
                                              var_cols=var, cov_cols=cov)
            except Exception as ex:  # noqa: BLE001
                chk.fail("read_aggregates raised", dict(input=inp, error=repr(ex)))
                continue
            res = res if grouped else {None: res}
            if set(res) != set(exact) or any(type(a) is not type(b) for a, b in zip(sorted(res, key=str), sorted(exact, key=str))):
                chk.fail("result keys are not the distinct variant values (as the same Python values)",
                         dict(input=inp, got=[repr(k) for k in res], expected=[repr(k) for k in exact]))
                continue
            for v, agg in res.items():
                idx = [j for j, w in enumerate(variant) if (w == v and type(w) is type(v)) or not grouped]
                nn = len(idx)
                ex = exact[v]
                if hc and agg.count_ != ex["count"]:
                    chk.fail("count differs", dict(input=inp, variant=repr(v), got=agg.count_, expected=str(ex["count"])))
                if not hc and agg.count_ is not None:
                    chk.fail("count returned although not requested", dict(input=inp))
                xs = {c: np.array([cols[c][j] for j in idx], dtype=float) for c in cols}
                for key_, e in ex.items():
                    if key_ == "count":
                        continue
                    kind_, c = key_
                    if kind_ == "mean":
                        got = agg.mean_[c]
                        tol = 8 * nn * U * float(np.abs(xs[c]).max()) + 1e-300
                    else:
                        a, b = (c, c) if kind_ == "var" else c
                        got = agg.var_[c] if kind_ == "var" else agg.cov_[c]
                        da, db = xs[a] - xs[a].mean(), xs[b] - xs[b].mean()
                        tol = (64 * nn * U * float(np.abs(da * db).sum()) / (nn - 1)
                               + 64 * (nn * U) ** 2 * float(np.linalg.norm(xs[a]) * np.linalg.norm(xs[b])) / (nn - 1)
                               + 1e-12 * abs(float(e)) + 1e-300)
                    try:
                        finite = got is not None and math.isfinite(float(got))
                    except (TypeError, ValueError):
                        finite = False
                    if not finite:
                        chk.fail(f"{kind_} of {c} is not a finite number although the variant's rows are finite",
                                 dict(input=inp, variant=repr(v), got=repr(got), expected=float(e)))
                        continue
                    err = abs(F(got) - e)
                    worst = max(worst, float(err) / tol)
                    if err > tol:
                        chk.fail(f"{kind_} of {c} is off by more than the conditioning-scaled tolerance",
                                 dict(input=inp, variant=repr(v), got=repr(got), expected=float(e), error=float(err), tol=tol))
                if set(agg.mean_) != set(mean) or set(agg.var_) != set(var) or set(agg.cov_) != set(vcov):
                    chk.fail("returned statistics are not exactly the requested ones",
                             dict(input=inp, mean=list(agg.mean_), var=list(agg.var_), cov=[list(p) for p in agg.cov_]))
    chk.cov["float_worst_err_over_tol"] = round(worst, 4)


def main():
    chk = Check(PROP)
    chk.trusted = common.BASE_TRUST + [
        "hand-written: Model/Query.lean (query algebra, its evaluator, the three builders) — tied structurally: the real "
        "pipelines are captured (harness/capture.py: narwhals Expr._nodes, ibis operation graph) and must equal the builders' "
        "output token by token; the canonicaliser parses the formatted names (_var__x …) into structured names",
        "meaning of each back end's primitives (mean, len/count, sum, windowed mean, and for the native branch var/cov "
        "how='sample') is what Query.evalRow says — exercised in float mode on pandas, Polars (eager, lazy), PyArrow and "
        "Ibis-SQLite (fallback branch); NO installed Ibis backend has both Variance and Covariance, so the native branch is "
        "tied structurally only",
        "floating-point error is not modelled: checked against exact rationals with the first-order two-pass bound",
        "theorems cover the grouped pipelines with at least one variance/covariance requested; the ungrouped (power analysis) "
        "and means-only pipelines are tied structurally and checked in float mode, not proved",
    ]
    chk.assumptions = [">= 2 rows per variant; finite values; user column names do not collide with the formatted "
                       "intermediate names"]
    proved = chk.prove(extra_targets=["TeaTasting.Model.Query"])
    with common.Lock():
        common.lake_build(["TeaTasting.Model.Query", "TeaTasting.Spec.Fast", "TeaTasting.Driver.Proto"])
    q = chk.tier == "quick"
    mism = structural(chk, 40 if q else 400)
    evaluate_captured(chk, mism)
    kinds = ("pandas", "polars", "polars-lazy", "pyarrow", "pyarrow-chunked", "ibis-sqlite")
    float_mode(chk, 15 if q else 150, kinds)
    analysis.narrow_ints(chk, 4 if q else 24, "per-variant aggregates are not the sample statistics")
    reuse.read_after_mutation(chk, 4 if q else 24, "per-variant aggregates are not the sample statistics")
    chk.cov["rule"] = ("structural: random column requests (duplicates, reversed pairs, empty subsets) x grouped/ungrouped x "
                       "int/float columns x {narwhals, ibis native, ibis fallback}; float: 1-5 variants (int/str/bool ids), "
                       "2..400 rows each, shuffled, modes plain / offset 1e6-1e9 / ties / big ints / tiny spread, 5 input kinds")
    chk.cov["proved"] = proved

    def extended():
        float_mode(chk, 60, kinds)

    chk.finish(extended_search=extended)


def replay(path):
    print(open(path).read()[:4000])
    main()
