#!/bin/sh
cd /verif
for sd in "$@"; do
  for i in 01 02 03 04 05 06 07 08 09 10 11 12 13 14 15 16 17 18 19 20; do
    VERIF_SEED=$sd VERIF_OUT=/tmp/aq_out ./check C$i 2>&1 | grep -- "->\|VIOLATION" | cut -c1-160
  done
done
