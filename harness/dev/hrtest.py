import subprocess, sys, os, shutil, json
from pathlib import Path
# usage: hrtest.py <name> <checks comma> 
name, checks = sys.argv[1], sys.argv[2].split(",")
lean = Path(f"/tmp/leanhr_{name}")
if not lean.exists():
    shutil.copytree("/verif/lean", lean, symlinks=True)
env = dict(os.environ, VERIF_LEAN=str(lean), VERIF_OUT=f"/tmp/hrout/{name}/out")
for n in "1234":
    pd = Path(f"/tmp/hrout/{name}/{n}/patch.diff")
    if not pd.exists():
        print(name, n, "no patch"); continue
    wt = f"/tmp/hrwt_{name}"
    subprocess.run(f"git -C /repo worktree remove --force {wt}", shell=True, capture_output=True)
    subprocess.run(f"git -C /repo worktree add --detach {wt} HEAD -q", shell=True)
    a = subprocess.run(f"git -C {wt} apply {pd}", shell=True, capture_output=True, text=True)
    if a.returncode:
        print(name, n, "does not apply", a.stderr[-200:]); continue
    for c in checks:
        r = subprocess.run(f"cd /verif && VERIF_REPO={wt} ./check {c}", shell=True, capture_output=True, text=True, env=env)
        last = [l for l in r.stdout.splitlines() if "->" in l or l.startswith("VIOLATION")]
        print(name, n, c, "exit", r.returncode, " | ".join(last)[-230:], flush=True)
        if r.returncode == 1:
            try:
                rp = json.load(open(f"/tmp/hrout/{name}/out/{c}-quick-seed0.json"))
                print("    kind:", rp.get("kind"), "broken:", str(rp.get("broken"))[:300], "failing:", str((rp.get("failing") or [{}])[0].get("what"))[:200], flush=True)
            except Exception as ex:
                print("    (no replay)", ex)
        if r.returncode == 2:
            print("    CRASH", (r.stdout + r.stderr)[-600:], flush=True)
    subprocess.run(f"git -C /repo worktree remove --force {wt}", shell=True, capture_output=True)
shutil.rmtree(lean, ignore_errors=True)
