import json,shutil,sys
from pathlib import Path
rnd=sys.argv[1]; origin=sys.argv[2]
done=[]
for pid in [f"C{i:02d}" for i in range(1,21)]:
    for x in "ab":
        src=Path(f"/tmp/r{rnd}out/{pid}/{x}")
        dst=Path(f"/verif/seeded/{pid}/r{rnd}{x}")
        if dst.exists(): continue
        if all((src/f).exists() for f in ("patch.diff","demo.py","meta.json")):
            dst.mkdir(parents=True)
            for f in ("patch.diff","demo.py"): shutil.copy(src/f,dst/f)
            m=json.loads((src/"meta.json").read_text())
            m["property"]=pid; m["origin"]=origin; m["base_commit"]="ee13295"
            (dst/"meta.json").write_text(json.dumps(m,indent=1))
            done.append(str(dst))
print(len(done)); print(" ".join(done))
open(f"/tmp/r{rnd}_batch.txt","w").write(" ".join(done))
