"""The same logical data as every input kind available in this sandbox (shared by C01, C02, C03, C15)."""
from __future__ import annotations

import itertools

_counter = itertools.count()


def sqlite_table(cols: dict, types: dict | None = None):
    """Ibis table on an in-memory SQLite database (the SQL-demeaning fallback branch: SQLite has no
    covariance).  Tables are created through the DB-API connection (create_table from Arrow is broken here)."""
    import ibis
    con = ibis.sqlite.connect()
    name = f"t{next(_counter)}"
    names = list(cols)
    n = len(cols[names[0]])

    def sqltype(c):
        v = cols[c][0] if n else 0
        if types and c in types:
            return types[c]
        if isinstance(v, bool):
            return "boolean"
        if isinstance(v, int):
            return "integer"
        if isinstance(v, float):
            return "real"
        return "text"
    con.con.execute(f"create table {name} (" + ", ".join(f'"{c}" {sqltype(c)}' for c in names) + ")")
    rows = [tuple(_py(cols[c][i]) for c in names) for i in range(n)]
    con.con.executemany(f"insert into {name} values (" + ",".join("?" * len(names)) + ")", rows)
    con.con.commit()
    return con.table(name)


def _py(v):
    if hasattr(v, "item"):
        v = v.item()
    return v


def make_inputs(cols: dict, kinds=("pandas", "polars", "polars-lazy", "pyarrow", "ibis-sqlite"), chunks=None, dtypes=None):
    """`dtypes` = {column: numpy dtype name such as "int32", "int16", "uint8", "float32"}: that column is stored in the
    NARROW type on pandas / Polars / PyArrow (SQLite has no narrow types: the column keeps its natural type there)"""
    import pandas as pd
    import polars as pl
    import pyarrow as pa
    d = {k: [_py(x) for x in v] for k, v in cols.items()}
    dtypes = dtypes or {}
    out = {}
    if "pandas" in kinds:
        out["pandas"] = pd.DataFrame(d).astype(dict(dtypes)) if dtypes else pd.DataFrame(d)
    plmap = {"int8": pl.Int8, "int16": pl.Int16, "int32": pl.Int32, "int64": pl.Int64, "uint8": pl.UInt8,
             "uint16": pl.UInt16, "uint32": pl.UInt32, "float32": pl.Float32, "float64": pl.Float64}

    def pl_frame():
        f = pl.DataFrame(d)
        return f.with_columns([pl.col(c).cast(plmap[t]) for c, t in dtypes.items()]) if dtypes else f
    if "polars" in kinds:
        out["polars"] = pl_frame()
    if "polars-lazy" in kinds:
        out["polars-lazy"] = pl_frame().lazy()

    def pa_table():
        if not dtypes:
            return pa.table(d)
        return pa.table({c: pa.array(v, type=getattr(pa, dtypes[c])()) if c in dtypes else pa.array(v)
                         for c, v in d.items()})
    if "pyarrow" in kinds:
        t = pa_table()
        if chunks and chunks > 1 and t.num_rows >= chunks:
            step = max(1, t.num_rows // chunks)
            parts = [t.slice(i, step) for i in range(0, t.num_rows, step)]
            parts.insert(1, t.slice(0, 0))           # an empty chunk
            t = pa.concat_tables(parts)
        out["pyarrow"] = t
    if "pyarrow-chunked" in kinds:
        t = pa_table()
        step = max(1, t.num_rows // 7)
        out["pyarrow-chunked"] = pa.concat_tables([t.slice(i, step) for i in range(0, t.num_rows, step)])
    if "ibis-sqlite" in kinds:
        out["ibis-sqlite"] = sqlite_table(d)
    return out
