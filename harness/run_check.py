"""Entry point: ./check Cxx [--tier quick|thorough] [--replay file]"""
from __future__ import annotations

import argparse
import importlib
import os
import sys
import traceback
from pathlib import Path

sys.path.insert(0, str(Path(__file__).resolve().parent))


def main() -> None:
    ap = argparse.ArgumentParser()
    ap.add_argument("prop")
    ap.add_argument("--tier", default=None)
    ap.add_argument("--replay", default=None)
    args = ap.parse_args()
    if args.tier:
        os.environ["VERIF_TIER"] = args.tier
    import common  # noqa: F401  (sets sys.path for the repo under test)
    # Checks of the SAME tree may run in parallel (regeneration is idempotent, builds are serialised by
    # common.Lock); a check of ANOTHER tree (VERIF_REPO=<scratch worktree>, used to try changes without touching
    # /repo) rewrites the generated Lean files and therefore runs alone.
    import fcntl
    tree_lock = open(common.LEAN / ".tree.lock", "w")
    other_tree = os.path.realpath(str(common.REPO)) != os.path.realpath("/repo")
    fcntl.flock(tree_lock, fcntl.LOCK_EX if other_tree else fcntl.LOCK_SH)
    try:
        mod = importlib.import_module(f"props.{args.prop.lower()}")
    except ModuleNotFoundError:
        print(f"no check for {args.prop}")
        sys.exit(2)
    if other_tree:
        # a run against ANOTHER tree rewrites lean/TeaTasting/Gen; put the generation of /repo back when it ends (also
        # on exit(1) / exit(2)), so that the project directory never keeps - or gets committed with - a foreign model
        import atexit
        atexit.register(common.use_snapshot)
    try:
        if args.replay:
            mod.replay(args.replay)
        else:
            mod.main()
    except SystemExit:
        raise
    except Exception as ex:  # noqa: BLE001
        # Safety net.  Every input the checks feed to the code is one the property quantifies over, and the places
        # where the code is EXPECTED to raise are wrapped by the checks themselves.  An exception that escapes and was
        # raised INSIDE the code under test (innermost frame under <repo>/src) is therefore the code failing on a valid
        # input: it is reported as a failing input (with the traceback as the replay), not as a crash of the harness.
        # Anything else — an exception raised in the harness, in Lean's driver, in a library — is a harness crash:
        # exit 2, never 1.
        tb = traceback.extract_tb(ex.__traceback__)
        src = os.path.realpath(str(common.REPO / "src")) + os.sep
        in_code = bool(tb) and os.path.realpath(tb[-1].filename).startswith(src)
        chk = common.Check.current
        if in_code and chk is not None:
            harness_frames = [f"{Path(f.filename).name}:{f.lineno} {f.name}" for f in tb
                              if os.path.realpath(f.filename).startswith(str(Path(__file__).resolve().parent))]
            chk.fail("the code raised on an input of the check (not an exception the check expects)",
                     dict(error=repr(ex), raised_at=f"{tb[-1].filename}:{tb[-1].lineno} {tb[-1].name}",
                          reached_from=harness_frames[-3:], traceback=traceback.format_exc()[-3000:]))
            chk.finish()
        traceback.print_exc()
        sys.exit(2)


if __name__ == "__main__":
    main()
