"""Entry point: ./check Cxx [--tier quick|thorough] [--replay file]"""
from __future__ import annotations

import argparse
import importlib
import os
import sys
import traceback
from pathlib import Path

sys.path.insert(0, str(Path(__file__).resolve().parent))


def main() -> None:
    ap = argparse.ArgumentParser()
    ap.add_argument("prop")
    ap.add_argument("--tier", default=None)
    ap.add_argument("--replay", default=None)
    args = ap.parse_args()
    if args.tier:
        os.environ["VERIF_TIER"] = args.tier
    import common  # noqa: F401  (sets sys.path for the repo under test)
    # Checks of the SAME tree may run in parallel (regeneration is idempotent, builds are serialised by
    # common.Lock); a check of ANOTHER tree (VERIF_REPO=<scratch worktree>, used to try changes without touching
    # /repo) rewrites the generated Lean files and therefore runs alone.
    import fcntl
    tree_lock = open(common.LEAN / ".tree.lock", "w")
    other_tree = os.path.realpath(str(common.REPO)) != os.path.realpath("/repo")
    fcntl.flock(tree_lock, fcntl.LOCK_EX if other_tree else fcntl.LOCK_SH)
    try:
        mod = importlib.import_module(f"props.{args.prop.lower()}")
    except ModuleNotFoundError:
        print(f"no check for {args.prop}")
        sys.exit(2)
    try:
        if args.replay:
            mod.replay(args.replay)
        else:
            mod.main()
    except SystemExit:
        raise
    except Exception:  # harness crash: exit 2, never 1
        traceback.print_exc()
        sys.exit(2)


if __name__ == "__main__":
    main()
