"""Run seedtest.py over many seeded changes in parallel (developer tool; not used by any registered command).

usage: seedpool.py <workers> <seed dir> [<seed dir> ...]      (a seed dir holds patch.diff, demo.py, meta.json)

Each worker gets its own copy of the Lean project (under /tmp, removed at the end) and its own replay directory, so
the generated files of different changed trees do not collide; results are printed one line per seed and written back
into each meta.json ("confirmed", "detected_by").
"""
from __future__ import annotations

import json
import os
import queue
import shutil
import subprocess
import sys
import tempfile
import threading
from pathlib import Path

VERIF = Path(__file__).resolve().parent.parent


def main():
    workers = int(sys.argv[1])
    dirs = queue.Queue()
    for d in sys.argv[2:]:
        dirs.put(d)
    pool = Path(tempfile.mkdtemp(prefix="leanpool_", dir="/tmp"))
    lock = threading.Lock()

    def work(k: int):
        lean = pool / f"lean{k}"
        shutil.copytree(VERIF / "lean", lean, symlinks=True)
        out = pool / f"out{k}"
        env = dict(os.environ, VERIF_LEAN=str(lean), VERIF_OUT=str(out))
        while True:
            try:
                d = dirs.get_nowait()
            except queue.Empty:
                return
            meta = json.loads((Path(d) / "meta.json").read_text())
            pid = meta["property"]
            p = subprocess.run(["/venv/bin/python", str(VERIF / "harness" / "seedtest.py"), d, pid], env=env,
                               capture_output=True, text=True)
            try:
                r = json.loads(p.stdout[p.stdout.index("{"):])
            except Exception:  # noqa: BLE001
                with lock:
                    print(d, "ERR", (p.stdout + p.stderr)[-300:], flush=True)
                continue
            c = r.get("checks", {}).get(pid, {})
            meta["confirmed"] = {"applies": r.get("applies"), "tests": r.get("tests"),
                                 "demo_unpatched_exit": r.get("demo_unpatched"), "demo_patched_exit": r.get("demo_patched")}
            meta["detected_by"] = {pid: {"exit": c.get("exit"), "kind": c.get("kind"), "first_finding": c.get("first")}}
            (Path(d) / "meta.json").write_text(json.dumps(meta, indent=1))
            with lock:
                print(str(d).replace(str(VERIF / "seeded") + "/", ""), "applies", r.get("applies"), "tests", r.get("tests_pass"),
                      "demo", r.get("demo_unpatched"), r.get("demo_patched"), "check", c.get("exit"), c.get("kind"),
                      (c.get("first") or "")[:70], flush=True)
    ts = [threading.Thread(target=work, args=(k,)) for k in range(workers)]
    for t in ts:
        t.start()
    for t in ts:
        t.join()
    shutil.rmtree(pool, ignore_errors=True)


if __name__ == "__main__":
    main()
