#!/bin/sh
# developer helper: regenerate Gen/*.lean from /repo and build the given Lean targets, holding the shared tree lock
# (so that a concurrent check of another tree cannot swap the generated files underneath the build)
cd "$(dirname "$0")/.." || exit 2
exec flock -s lean/.tree.lock sh -c '/venv/bin/python -c "import sys; sys.path.insert(0, \"harness\"); import common; common.regenerate()" && cd lean && flock .verif.lock lake build "$@"' sh "$@"
