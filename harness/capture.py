"""Capture what `aggr.py` BUILDS — the Narwhals pipeline / the Ibis operation graph — and what is
materialised from the data backend, without executing anything special: class-level wrappers installed
from outside the package (no hook inside /repo).  Canonical form = the `Query` algebra of
lean/TeaTasting/Model/Query.lean, as nested tuples.
"""
from __future__ import annotations

import contextlib
import re

NAME_RE = [
    (re.compile(r"^_count$"), lambda m: ("C",)),
    (re.compile(r"^_mean__(.+)$"), lambda m: ("M", m.group(1))),
    (re.compile(r"^_var__(.+)$"), lambda m: ("V", m.group(1))),
    (re.compile(r"^_cov__(.+?)__(.+)$"), lambda m: ("K", m.group(1), m.group(2))),
    (re.compile(r"^_demean__(.+)$"), lambda m: ("D", m.group(1))),
    (re.compile(r"^_group_mean__(.+)$"), lambda m: ("G", m.group(1))),
]


def parse_name(s: str, user_cols=None):
    for rx, f in NAME_RE:
        m = rx.match(s)
        if m and not (user_cols and s in user_cols):
            return f(m)
    return ("U", s)


# ------------------------------------------------------------------ Narwhals
def nw_expr(e, user_cols=None):
    """narwhals Expr -> canonical tuple, from its node chain"""
    nodes = e._nodes
    cur = None
    for node in nodes:
        name, args, kw = node.name, node.exprs, node.kwargs
        if name == "col":
            names = kw["names"]
            if len(names) != 1:
                raise ValueError(f"multi-column col {names}")
            cur = ("col", parse_name(names[0], user_cols))
        elif name == "len":
            cur = ("len",)
        elif name == "lit":
            cur = ("lit", kw.get("value"))
        elif name == "mean":
            cur = ("mean", cur)
        elif name == "sum":
            cur = ("sum", cur)
        elif name == "var":
            cur = ("varS" if kw.get("ddof", 1) == 1 else "varP", cur)
        elif name == "over":
            if list(kw.get("order_by") or []) != []:
                raise ValueError("over(order_by=…)")
            cur = ("over", cur, tuple(kw.get("partition_by") or ()))
        elif name in ("__sub__", "__mul__", "__truediv__", "__add__"):
            other = arg(args[0], user_cols)
            cur = ({"__sub__": "sub", "__mul__": "mul", "__truediv__": "div", "__add__": "add"}[name], cur, other)
        elif name in ("__rsub__", "__rmul__", "__rtruediv__", "__radd__"):
            other = arg(args[0], user_cols)
            cur = ({"__rsub__": "sub", "__rmul__": "mul", "__rtruediv__": "div", "__radd__": "add"}[name], other, cur)
        elif name == "cast":
            cur = ("cast", cur)
        else:
            raise ValueError(f"unknown narwhals node {name}")
    return cur


def arg(a, user_cols):
    if hasattr(a, "_nodes"):
        return nw_expr(a, user_cols)
    if isinstance(a, (int, float)) and not isinstance(a, bool):
        return ("lit", a)
    raise ValueError(f"unknown operand {a!r}")


class NwRecorder:
    def __init__(self):
        self.stages = []        # ("W", {name: expr}) | ("J", {name: expr}) | ("A", group or None, {name: expr})
        self.collects = []      # (n_rows, columns) of every materialisation
        self.user_cols = None


@contextlib.contextmanager
def narwhals_capture():
    """Records the DATAFLOW of the LazyFrame operations `aggr.py` performs: every frame is mapped to the
    pipeline (tuple of stages) that derives it from the source; `join` is accepted only in the shape
    `f.join(f.group_by(g).agg(…), on=g, how="left")` (stage J); the pipeline of the collected frame is the result."""
    import narwhals as nw
    import narwhals.group_by as ngb
    rec = NwRecorder()
    LF = nw.LazyFrame
    saved = dict(with_columns=LF.with_columns, select=LF.select, group_by=LF.group_by, collect=LF.collect,
                 join=LF.join, drop=LF.drop, agg=ngb.LazyGroupBy.agg)
    deriv = {}          # id(frame) -> tuple of stages
    groups = {}         # id(group_by object) -> (keys, pipeline of the source frame)
    keep = []           # keeps every object alive so that ids are not reused

    def pipe(f):
        return deriv.get(id(f), ())

    def note(out, stages):
        keep.append(out)
        deriv[id(out)] = stages
        return out

    def schema(self):
        if rec.user_cols is None:
            rec.user_cols = set(self.collect_schema().names())

    def with_columns(self, *exprs, **named):
        if exprs:
            raise ValueError("positional with_columns")
        schema(self)
        st = ("W", {parse_name(k, rec.user_cols): nw_expr(v, rec.user_cols) for k, v in named.items()})
        return note(saved["with_columns"](self, *exprs, **named), pipe(self) + (st,))

    def select(self, *exprs, **named):
        if exprs:
            raise ValueError("positional select")
        schema(self)
        st = ("A", None, {parse_name(k, rec.user_cols): nw_expr(v, rec.user_cols) for k, v in named.items()})
        return note(saved["select"](self, *exprs, **named), pipe(self) + (st,))

    def group_by(self, *keys, **kw):
        schema(self)
        if kw:
            raise ValueError(f"group_by options {kw}")
        g = saved["group_by"](self, *keys, **kw)
        keep.append(g)
        groups[id(g)] = (tuple(keys), pipe(self))
        return g

    def agg(self, *exprs, **named):
        if exprs:
            raise ValueError("positional agg")
        keys, src = groups.get(id(self), ((), ()))
        st = ("A", keys, {parse_name(k, rec.user_cols): nw_expr(v, rec.user_cols) for k, v in named.items()})
        return note(saved["agg"](self, *exprs, **named), src + (st,))

    def drop(self, *columns, strict=True):
        # `data.drop([names of the columns the next join creates], strict=False)`: a guard against an input column
        # that happens to carry such a name; recorded as a pending marker that only the following join may consume
        names = []
        for c in columns:
            names += list(c) if isinstance(c, (list, tuple)) else [c]
        if strict:
            raise ValueError("strict drop")
        return note(saved["drop"](self, *columns, strict=strict), pipe(self) + (("X", tuple(names)),))

    def join(self, other, on=None, how="inner", **kw):
        left, right = pipe(self), pipe(other)
        if left and left[-1][0] == "X":
            dropped = {parse_name(n, None) for n in left[-1][1]}
            left = left[:-1]
            if not (right and right[-1][0] == "A" and dropped == set(right[-1][2])):
                raise ValueError(f"drop before join removes {sorted(dropped)}, which are not the joined columns")
        on_t = (on,) if isinstance(on, str) else tuple(on or ())
        extra = {k: v for k, v in kw.items() if v is not None and not (k == "suffix" and v == "_right")}
        if (how != "left" or extra or len(right) != len(left) + 1 or right[:-1] != left or right[-1][0] != "A"
                or right[-1][1] != on_t or len(on_t) != 1):
            raise ValueError(f"join not of the form f.join(f.group_by(g).agg(..), on=g, how='left'): how={how} on={on} {extra}")
        st = ("J", right[-1][2], on_t)
        return note(saved["join"](self, other, on=on, how=how, **kw), left + (st,))

    def collect(self, *a, **kw):
        out = saved["collect"](self, *a, **kw)
        rec.stages = list(pipe(self))
        if any(st[0] == "X" for st in rec.stages):
            raise ValueError("a drop that is not consumed by a join of the dropped names")
        try:
            rec.collects.append((out.shape[0], tuple(out.columns)))
        except Exception:  # noqa: BLE001
            rec.collects.append((None, ()))
        return out

    LF.with_columns, LF.select, LF.group_by, LF.collect, LF.join, LF.drop = with_columns, select, group_by, collect, join, drop
    ngb.LazyGroupBy.agg = agg
    try:
        yield rec
    finally:
        LF.with_columns, LF.select, LF.group_by, LF.collect, LF.join, LF.drop = (
            saved["with_columns"], saved["select"], saved["group_by"], saved["collect"], saved["join"], saved["drop"])
        ngb.LazyGroupBy.agg = saved["agg"]


# ------------------------------------------------------------------ Ibis
def ibis_expr(op, user_cols):
    import ibis.expr.operations as ops
    t = type(op).__name__
    if isinstance(op, ops.Field):
        return ("col", parse_name(op.name, user_cols))
    if isinstance(op, ops.Cast):
        return ("cast", ibis_expr(op.arg, user_cols))
    if isinstance(op, ops.Literal):
        return ("lit", op.value)
    if isinstance(op, ops.CountStar):
        return ("countstar",)
    if isinstance(op, ops.Mean):
        if op.where is not None:
            raise ValueError("Mean(where=…)")
        return ("mean", ibis_expr(op.arg, user_cols))
    if isinstance(op, ops.Sum):
        if op.where is not None:
            raise ValueError("Sum(where=…)")
        return ("sum", ibis_expr(op.arg, user_cols))
    if isinstance(op, ops.Variance):
        return ("varS" if op.how == "sample" else "varP", ibis_expr(op.arg, user_cols))
    if isinstance(op, ops.Covariance):
        return ("covS" if op.how == "sample" else "covP", ibis_expr(op.left, user_cols), ibis_expr(op.right, user_cols))
    if isinstance(op, ops.Subtract):
        return ("sub", ibis_expr(op.left, user_cols), ibis_expr(op.right, user_cols))
    if isinstance(op, ops.Multiply):
        return ("mul", ibis_expr(op.left, user_cols), ibis_expr(op.right, user_cols))
    if isinstance(op, ops.Divide):
        return ("div", ibis_expr(op.left, user_cols), ibis_expr(op.right, user_cols))
    if isinstance(op, ops.Add):
        return ("add", ibis_expr(op.left, user_cols), ibis_expr(op.right, user_cols))
    if isinstance(op, ops.WindowFunction):
        if op.order_by:
            raise ValueError("window order_by")
        inner = ibis_expr(op.func, user_cols)
        gb = tuple(g.name for g in op.group_by)
        return ("over", inner, gb) if gb else inner
    raise ValueError(f"unknown ibis operation {t}")


def ibis_stages(expr):
    """the relation chain of an Ibis table expression -> list of stages (innermost first)"""
    import ibis.expr.operations as ops
    chain = []
    op = expr.op()
    while True:
        chain.append(op)
        if isinstance(op, (ops.UnboundTable, ops.DatabaseTable, ops.InMemoryTable)):
            break
        if not hasattr(op, "parent"):
            raise ValueError(f"unknown ibis relation {type(op).__name__}")
        op = op.parent
    chain = chain[::-1]
    user_cols = set(chain[0].schema.names)
    stages = []
    for op in chain[1:]:
        if isinstance(op, ops.Project):
            defs = {}
            for name, v in op.values.items():
                if isinstance(v, ops.Field) and v.name == name:
                    continue        # pass-through of an existing column
                defs[parse_name(name, user_cols)] = ibis_expr(v, user_cols)
            stages.append(("W", defs))
        elif isinstance(op, ops.Aggregate):
            groups = tuple(op.groups.keys())
            stages.append(("A", groups or None, {parse_name(k, user_cols): ibis_expr(v, user_cols)
                                                 for k, v in op.metrics.items()}))
        else:
            raise ValueError(f"unknown ibis relation {type(op).__name__}")
    return stages


class FakeBackend:
    def __init__(self, native):
        self.native = native

    def has_operation(self, op):
        return self.native


@contextlib.contextmanager
def ibis_capture(native: bool | None):
    """record every Table.to_pyarrow; with native in {True, False} the backend is a stand-in whose
    has_operation answers `native` and nothing is executed (works on unbound tables)"""
    import ibis.expr.types as it
    import pyarrow as pa
    import tea_tasting.aggr as ta
    rec = []
    orig_to, orig_get = it.Table.to_pyarrow, ta.ibis.get_backend

    def to_pyarrow(self, *a, **k):
        if native is None:
            out = orig_to(self, *a, **k)
            rec.append((self, out.num_rows, tuple(out.column_names)))
            return out
        cols = self.schema().names
        rec.append((self, None, tuple(cols)))
        return pa.table({c: [1.0, 2.0] for c in cols})

    it.Table.to_pyarrow = to_pyarrow
    if native is not None:
        ta.ibis.get_backend = lambda data: FakeBackend(native)
    try:
        yield rec
    finally:
        it.Table.to_pyarrow = orig_to
        ta.ibis.get_backend = orig_get


# ------------------------------------------------------------------ serialisation for the Lean driver
def name_wire(n):
    return ":".join(n)


def expr_wire(e):
    k = e[0]
    if k == "col":
        return f"col {name_wire(e[1])}"
    if k == "lit":
        v = e[1]
        if isinstance(v, float) and v == int(v):
            v = int(v)
        if not isinstance(v, int):
            raise ValueError(f"non-integer literal {v!r}")
        return f"lit {v}"
    if k in ("len", "countstar"):
        return k
    if k == "over":
        return f"over {expr_wire(e[1])}"
    return k + " " + " ".join(expr_wire(x) for x in e[1:])


def strip_casts(e):
    if not isinstance(e, tuple):
        return e
    if e[0] == "cast":
        return strip_casts(e[1])
    if e[0] == "col":
        return e
    return (e[0],) + tuple(strip_casts(x) if isinstance(x, tuple) and x and isinstance(x[0], str) and x[0] not in ("U", "C", "M", "V", "K", "D") else x for x in e[1:])


def query_wire(stages, group, drop_casts=False):
    """canonical text of a captured pipeline; `group` = the variant column (or None)"""
    out = [str(len(stages))]
    for st in stages:
        if st[0] == "W":
            defs = st[1]
            out.append(f"W {len(defs)}")
        elif st[0] == "J":
            defs = st[1]
            if st[2] != (group,):
                raise ValueError(f"joined on {st[2]}, expected {group}")
            out.append(f"J {len(defs)}")
        else:
            g = st[1]
            if g not in (None, (group,)) and not (g == () and group is None):
                raise ValueError(f"grouped by {g}, expected {group}")
            defs = st[2]
            out.append(f"A {1 if g else 0} {len(defs)}")
        for n in sorted(defs, key=name_wire):
            e = strip_casts(defs[n]) if drop_casts else defs[n]
            check_over(e, group)
            out.append(f"{name_wire(n)} {expr_wire(e)}")
    return " ".join(out)


def check_over(e, group):
    if isinstance(e, tuple) and e and e[0] == "over":
        if tuple(e[2]) != ((group,) if group else ()):
            raise ValueError(f"window partitioned by {e[2]}, expected {group}")
    if isinstance(e, tuple):
        for x in e[1:]:
            if isinstance(x, tuple):
                check_over(x, group)
