"""Shared exact-mode machinery for the Mean / RatioOfMeans analysis (C04–C07, C17).

A *case* is raw rational data for control and treatment, the column roles of the metric and an
option cell.  For every case three things are computed and compared:

  real  — the REAL `tea_tasting` metric object analysing the aggregates of the data on Fractions
          (rational stand-ins for sqrt/exp/t/norm: harness/stubs.py);
  gen   — the Lean model regenerated from the source (`DriverGen.lean analyze …`) at Q;
  spec  — the Lean specification (`DriverSpec.lean cuped …`): the textbook test of the
          (regression-adjusted, linearised) raw observations at Q.

real ≠ gen is a broken correspondence; real ≠ spec is a failing input of the property.
"""
from __future__ import annotations

import math
from fractions import Fraction as F

import common
from common import Driver, aggr_wire, opt, parse_num, rand_frac, rs, table_wire
from props.c14 import parse_aggr, mk_real

ALTS = ("two-sided", "greater", "less")
FIELDS = ("control", "treatment", "effect_size", "effect_size_ci_lower", "effect_size_ci_upper",
          "rel_effect_size", "rel_effect_size_ci_lower", "rel_effect_size_ci_upper", "pvalue", "statistic")
CELLS = [(a, ev, ut) for a in ALTS for ev in (False, True) for ut in (False, True)]


def gen_data(rng, ncols, n, kind, cov_mode=None):
    """rows of `ncols` rational columns; cov_mode shapes column 2 (the covariate) relative to column 0"""
    rows = []
    for _ in range(n):
        if kind == "int":
            r = [F(rng.randint(1, 9)) if j in (1, 3) else F(rng.randint(-6, 9)) for j in range(ncols)]
        else:
            r = [rand_frac(rng, 1, 8) if j in (1, 3) else rand_frac(rng, -5, 8) for j in range(ncols)]
        rows.append(r)
    if cov_mode == "affine" and ncols > 2:      # covariate exactly affine in the metric: correlation 1
        for r in rows:
            r[2] = 3 * r[0] - 2
    if cov_mode == "const" and ncols > 2:       # constant covariate: zero variance, coefficient reset
        for r in rows:
            r[2] = F(5, 2)
    if cov_mode == "noisy" and ncols > 2:       # strongly but not perfectly correlated
        for r in rows:
            r[2] = r[0] + rand_frac(rng, -1, 1)
    return rows


ROLE_KINDS = {
    # name: (numer, denom, ncov, dcov) as column indexes / None
    "mean": (0, None, None, None),
    "ratio": (0, 1, None, None),
    "mean_cov": (0, None, 2, None),
    "ratio_ncov": (0, 1, 2, None),
    "ratio_cov": (0, 1, 2, 3),
    "mean_ratio_cov": (0, None, 2, 3),      # a plain mean adjusted with a RATIO covariate
}


def make_case(rng, role_kind, cell, i, max_rows=14):
    roles = tuple(None if r is None else f"c{r}" for r in ROLE_KINDS[role_kind])
    ncols = 4
    nc = rng.randint(2, max_rows)
    nt = rng.randint(2, max_rows)
    if i % 5 == 0:
        nc, nt = rng.randint(2, 3), rng.randint(max_rows, 2 * max_rows)   # 1:many unbalanced
    if i % 9 == 0:
        nc = nt = rng.randint(2, max_rows)                                 # balanced
    kind = "int" if i % 3 == 0 else "frac"
    cov_mode = None
    if roles[2] is not None:
        cov_mode = ("noisy", "noisy", None, "const", "affine")[i % 5]
    for _ in range(50):
        tc = gen_data(rng, ncols, nc, kind, cov_mode)
        tt = gen_data(rng, ncols, nt, kind, cov_mode)
        if valid_data(tc, tt, roles):
            break
    if roles[1] is not None and i % 6 == 4:
        # a denominator whose sample mean is EXACTLY one in the control group (weights normalised to mean one, session
        # counts averaging to one): a short cut keyed on `mean(denom) == 1` instead of `denom is None` shows here
        for t in (tc,):
            j = int(roles[1][1:])
            mu = sum(r[j] for r in t) / len(t)
            if mu != 0:
                for r in t:
                    r[j] = r[j] / mu
    if roles[2] is not None and roles[3] is None and i % 7 == 5:
        # a covariate whose POOLED mean is exactly zero (centred, signed covariates) while the variants' means differ
        j = int(roles[2][1:])
        mu = sum(r[j] for r in tc + tt) / (len(tc) + len(tt))
        for r in tc + tt:
            r[j] = r[j] - mu
    cl = F(rng.randint(1, 99), 100) if i % 4 else F(rng.choice([1, 5, 50, 90, 95, 99]), 100)
    alt, ev, ut = cell
    return dict(role_kind=role_kind, roles=roles, tc=tc, tt=tt, alt=alt, ev=ev, ut=ut, cl=cl,
                cov_mode=cov_mode, kind=kind)


def col(t, name):
    j = int(name[1:])
    return [r[j] for r in t]


def valid_data(tc, tt, roles):
    """the quantifier of C04–C06: >= 2 rows, non-zero denominator means, non-zero variances and means"""
    for t in (tc, tt, tc + tt):
        for d in (roles[1], roles[3]):
            if d is not None and sum(col(t, d)) == 0:
                return False
    for t in (tc, tt):
        y = col(t, roles[0])
        if len(set(y)) < 2:
            return False
        if roles[1] is None and sum(y) == 0:
            return False
        if roles[1] is not None and sum(y) == 0:
            return False
    return True


def opts_wire(c):
    return f"{c['alt']} {rs(c['cl'])} {int(c['ev'])} {int(c['ut'])}"


def roles_wire(c):
    return " ".join(opt(r) for r in c["roles"])


def cfg_wire(c):
    r = c["roles"]
    return (f"{r[0]} {opt(r[1])} {opt(r[2])} {opt(r[3])} {c['alt']} {rs(c['cl'])} {int(c['ev'])} {int(c['ut'])} "
            f"1/20 1 4/5")


NAMES = ["c0", "c1", "c2", "c3"]


def make_metric(c):
    import tea_tasting as tt
    r = c["roles"]
    if c["role_kind"] in ("mean", "mean_cov") and r[1] is None and r[3] is None:
        m = tt.Mean(r[0], r[2], alternative=c["alt"], equal_var=c["ev"], use_t=c["ut"])
    else:
        m = tt.RatioOfMeans(r[0], r[1], r[2], r[3], alternative=c["alt"], equal_var=c["ev"], use_t=c["ut"])
    m.confidence_level = c["cl"]      # a Fraction: int/int in Python would leave the rationals
    return m


def real_analyze(c, ac, at, family=1):
    import stubs
    with stubs.exact_mode(family):
        try:
            m = make_metric(c)
            r = m.analyze({0: mk_real(*ac), 1: mk_real(*at)}, 0, 1)
            return ("ok", [getattr(r, f) for f in FIELDS])
        except ZeroDivisionError:
            return ("zerodiv", None)           # exact arithmetic hit 0/0: outside the quantifier (C18)
        except Exception as ex:  # noqa: BLE001
            return ("raise", f"{type(ex).__name__}: {ex}")


def parse_result(line):
    toks = line.split()
    if not toks or toks[0] == "err":
        raise common.DriverError(line)
    return [parse_num(t) for t in toks]


def same(a, b, rel=1e-9, approx=False):
    """exact on rationals; where the code itself left the rationals (an `int / int` such as `1 / 1` for an
    absent column makes a float) the value is compared to `rel` relative"""
    if approx or isinstance(a, float) or isinstance(b, float):
        fa, fb = float(a), float(b)
        if fa == fb:
            return True
        if fa != fa or fb != fb or abs(fa) == float("inf") or abs(fb) == float("inf"):
            return False
        return abs(fa - fb) <= rel * max(abs(fa), abs(fb)) + 1e-12
    return a == b


def run_cases(chk, cases, family=1, with_gen=True, with_spec=True, label=""):
    """Returns list of (case, real, gen, spec) and records disagreements / failing inputs."""
    spec = Driver("DriverSpec.lean")
    lines = []
    for c in cases:
        lines += [f"aggrof 4 {' '.join(NAMES)} {table_wire(c['tc'])}",
                  f"aggrof 4 {' '.join(NAMES)} {table_wire(c['tt'])}",
                  f"cuped {family} {opts_wire(c)} {roles_wire(c)} {table_wire(c['tc'])} {table_wire(c['tt'])}"]
    out = spec.ask(lines)
    aggs = [(parse_aggr(NAMES, out[3 * i]), parse_aggr(NAMES, out[3 * i + 1])) for i in range(len(cases))]
    specs = [parse_result(out[3 * i + 2]) for i in range(len(cases))]
    gens = [None] * len(cases)
    if with_gen:
        gl = [f"analyze {family} {cfg_wire(c)} {aggr_wire(NAMES, *a[0])} {aggr_wire(NAMES, *a[1])}"
              for c, a in zip(cases, aggs)]
        gens = [parse_result(x) for x in Driver("DriverGen.lean").ask(gl)]
    results = []
    for i, c in enumerate(cases):
        st, real = real_analyze(c, aggs[i][0], aggs[i][1], family)
        key = (c["role_kind"], c["alt"], c["ev"], c["ut"], c["cov_mode"], len(c["tc"]), len(c["tt"]), str(c["cl"]))
        inp = dict(roles=c["roles"], alternative=c["alt"], equal_var=c["ev"], use_t=c["ut"],
                   confidence_level=str(c["cl"]), stub_family=family,
                   control=[[str(v) for v in r] for r in c["tc"]],
                   treatment=[[str(v) for v in r] for r in c["tt"]])
        chk.branch(f"{c['role_kind']}")
        chk.branch(f"cell={c['alt']},{'pooled' if c['ev'] else 'welch'},{'t' if c['ut'] else 'z'}")
        if c["cov_mode"]:
            chk.branch(f"cov={c['cov_mode']}")
        if st == "zerodiv":
            chk.branch("skipped:exact-0/0")
            chk.case(key, nontrivial=False)
            results.append((c, None, gens[i], specs[i]))
            continue
        chk.case(key)
        if st == "raise":
            chk.fail(f"{label}analysis raised on valid data", dict(input=inp, observed=real))
            results.append((c, None, gens[i], specs[i]))
            continue
        approx = c["roles"][2] is None      # `1 / 1` of the absent covariate is a float: values are float-tainted
        if with_spec:
            for f, a, b in zip(FIELDS, real, specs[i]):
                if not same(a, b, approx=approx):
                    chk.fail(f"{label}{c['role_kind']}: field {f} differs from the textbook test of the "
                             f"(adjusted, linearised) raw observations",
                             dict(input=inp, field=f, observed=str(a), expected=str(b)))
                    break
        if with_gen:
            for f, a, b in zip(FIELDS, real, gens[i]):
                if not same(a, b, approx=approx):
                    chk.disagree(f"{label}Gen.analyze_aggregates vs real analyze ({f})",
                                 dict(input=inp, field=f, impl=str(a), model=str(b)))
                    break
        if i < 3:
            chk.sample(dict(kind=f"exact analysis {c['role_kind']}", roles=c["roles"], cell=[c["alt"], c["ev"], c["ut"]],
                            cl=str(c["cl"]), n=[len(c["tc"]), len(c["tt"])],
                            pvalue=str(real[8])[:60], statistic=str(real[9])[:60]))
        results.append((c, real, gens[i], specs[i]))
    return results


def float_far_tail(chk, n, clauses=("textbook", "duality", "swap")):
    """Float mode, strongly significant effects (|statistic| 6..14, p-values 1e-9..1e-40): p-values are compared
    RELATIVELY — a p-value computed by cancellation (`1 - cdf` instead of `sf`) is accurate to 1e-16 absolutely and
    wrong (or exactly 0) relatively.  textbook: against scipy's survival functions; duality: two-sided = 2 * min of
    the one-sided values; swap: exchanging the roles and mirroring the alternative keeps the p-value."""
    import math

    import numpy as np
    import pyarrow as pa
    import scipy.stats as st
    import tea_tasting as tt
    rng = np.random.default_rng(chk.seed + 91)

    def rel(a, b):
        return abs(a - b) <= 1e-6 * max(abs(a), abs(b)) or (a == 0 and b == 0)

    for k in range(n):
        ev, ut = bool(k % 2), bool((k // 2) % 2)
        nc, nt = int(rng.integers(40, 400)), int(rng.integers(40, 400))
        target = float(rng.uniform(6, 14)) * (1 if k % 3 else -1)
        xc = rng.normal(10, 1, nc)
        xt = rng.normal(10, 1, nt)
        se0 = math.sqrt(xc.var(ddof=1) / nc + xt.var(ddof=1) / nt)
        xt = xt + (xc.mean() - xt.mean()) + target * se0
        data = pa.table({"variant": [0] * nc + [1] * nt, "x": np.concatenate([xc, xt])})
        res = {}
        try:
            for alt in ALTS:
                m = tt.Mean("x", alternative=alt, equal_var=ev, use_t=ut)
                res[alt] = m.analyze(data, 0, 1, "variant")
                res["swap:" + alt] = m.analyze(data, 1, 0, "variant")
        except Exception as ex:  # noqa: BLE001
            chk.fail("analysis raised on plain float data with a strong effect", dict(error=repr(ex)))
            continue
        z = float(res["two-sided"].statistic)
        vc, vt = xc.var(ddof=1), xt.var(ddof=1)
        if ev:
            df = nc + nt - 2
        else:
            df = (vc / nc + vt / nt) ** 2 / ((vc / nc) ** 2 / (nc - 1) + (vt / nt) ** 2 / (nt - 1))
        dist = st.t(df) if ut else st.norm()
        inp = dict(equal_var=ev, use_t=ut, n=[nc, nt], statistic=z, control=xc.tolist()[:5] + ["..."],
                   seed=chk.seed, case=k)
        chk.case(("far-tail", ev, ut, round(target, 2)))
        chk.branch("far-tail")
        pg, pl, p2 = (float(res[a].pvalue) for a in ("greater", "less", "two-sided"))
        if "textbook" in clauses:
            exp = dict(greater=float(dist.sf(z)), less=float(dist.cdf(z)), two=float(2 * dist.sf(abs(z))))
            for name, got, e in (("greater", pg, exp["greater"]), ("less", pl, exp["less"]), ("two-sided", p2, exp["two"])):
                if e > 1e-300 and not rel(got, e):
                    chk.fail(f"far tail: the {name} p-value differs RELATIVELY from the textbook tail probability",
                             dict(input=inp, observed=got, expected=e))
        if "duality" in clauses:
            if not rel(p2, 2 * min(pg, pl)):
                chk.fail("far tail: the two-sided p-value is not twice the smaller one-sided p-value",
                         dict(input=inp, two_sided=p2, greater=pg, less=pl))
        if "swap" in clauses:
            for a, b in (("greater", "less"), ("less", "greater"), ("two-sided", "two-sided")):
                if not rel(float(res[a].pvalue), float(res["swap:" + b].pvalue)):
                    chk.fail("far tail: exchanging control and treatment (alternative mirrored) changes the p-value",
                             dict(input=inp, alternative=a, original=float(res[a].pvalue),
                                  swapped=float(res["swap:" + b].pvalue)))


def float_duality_boundary(chk, n):
    """Float mode: the statistic is placed a hair (1e-4 relative) below / above the critical value of the test, for small
    and for large degrees of freedom; `pvalue < 1 - confidence_level` must hold exactly when the absolute interval
    excludes zero.  An interval built from another distribution than the p-value (a normal quantile for a t test with
    many degrees of freedom, a quantile of the relative interval's distribution) breaks the equivalence in that band."""
    import math

    import numpy as np
    import pyarrow as pa
    import scipy.stats as st
    import tea_tasting as tt
    rng = np.random.default_rng(chk.seed + 17)
    metrics = {}          # ONE metric object per option cell, reused for data sets of very different sizes: nothing
                          # about an earlier analysis (degrees of freedom, critical values) may leak into a later one
    for k in range(n):
        alt, ev, ut = CELLS[k % len(CELLS)]
        big = bool(rng.integers(0, 2)) if not ut else (k // len(CELLS)) % 2 == 0   # both sizes for every t cell
        nc, nt = (int(rng.integers(900, 3000)), int(rng.integers(900, 3000))) if big else \
            (int(rng.integers(4, 30)), int(rng.integers(4, 30)))
        cl = (0.9, 0.95, 0.99)[(k // len(CELLS)) % 3] if k // len(CELLS) < 2 else float(rng.choice([0.9, 0.95, 0.99]))
        if k // len(CELLS) < 2:
            cl = 0.95
        xc = rng.normal(10, 2, nc)
        xt = rng.normal(10, rng.uniform(1, 4), nt)
        vc, vt = xc.var(ddof=1), xt.var(ddof=1)
        if ev:
            sp = ((nc - 1) * vc + (nt - 1) * vt) / (nc + nt - 2)
            se, df = math.sqrt(sp * (1 / nc + 1 / nt)), nc + nt - 2
        else:
            se = math.sqrt(vc / nc + vt / nt)
            df = (vc / nc + vt / nt) ** 2 / ((vc / nc) ** 2 / (nc - 1) + (vt / nt) ** 2 / (nt - 1))
        dist = st.t(df) if ut else st.norm()
        a = 1 - cl
        crit = dist.ppf(1 - a / 2) if alt == "two-sided" else dist.ppf(1 - a)
        sign = -1 if alt == "less" or (alt == "two-sided" and k % 3 == 0) else 1
        for side in (-1, 1):
            z = sign * crit * (1 + side * 1e-4)
            shifted = xt + (xc.mean() - xt.mean()) + z * se
            data = pa.table({"variant": [0] * nc + [1] * nt, "x": np.concatenate([xc, shifted])})
            try:
                mkey = (alt, ev, ut, cl)
                if mkey not in metrics:
                    metrics[mkey] = tt.Mean("x", alternative=alt, equal_var=ev, use_t=ut, confidence_level=cl)
                r = metrics[mkey].analyze(data, 0, 1, "variant")
            except Exception as ex:  # noqa: BLE001
                chk.fail("analysis raised on plain float data", dict(error=repr(ex)))
                break
            lo, hi = float(r.effect_size_ci_lower), float(r.effect_size_ci_upper)
            excludes = not (lo <= 0 <= hi)
            signif = float(r.pvalue) < a
            chk.case(("duality-boundary", alt, ev, ut, big, side, cl))
            chk.branch("duality-boundary:" + ("large-df" if big else "small-df"))
            if excludes != signif or signif != (side > 0):
                chk.fail("p-value < 1 - confidence_level and `the absolute interval excludes zero` disagree just "
                         + ("above" if side > 0 else "below") + " the critical value",
                         dict(cell=[alt, ev, ut], confidence_level=cl, n=[nc, nt], df=float(df), statistic=float(r.statistic),
                              critical=float(crit), pvalue=float(r.pvalue), ci=[lo, hi], seed=chk.seed, case=k))
                break


def narrow_ints(chk, n, what: str, kinds=("pandas", "polars", "polars-lazy", "pyarrow")):
    """The same logical data with its integer columns stored in a NARROW integer type (int32 / int16 / uint8, values
    whose squares, products or per-variant sums exceed the range of that type) must give what the float64 copy gives:
    arithmetic carried out in the column's own dtype wraps around silently."""
    import numpy as np
    import backends
    import tea_tasting as tt
    rng = chk.rng
    fields = ("control", "treatment", "effect_size", "effect_size_ci_lower", "effect_size_ci_upper", "rel_effect_size",
              "pvalue", "statistic")
    for i in range(n):
        nprng = np.random.default_rng(rng.randint(0, 2**31))
        dt, lo, hi, rows = [("int32", 40000, 900000, 600), ("int16", 150, 30000, 300), ("uint8", 20, 250, 400),
                            ("int32", 900000, 2000000, 5000)][i % 4]          # the last: per-variant SUMS exceed 2**31
        variant = [int(v) for v in nprng.integers(0, 2, rows)]
        variant[:4] = [0, 0, 1, 1]
        x = nprng.integers(lo, hi, rows)
        y = nprng.integers(max(1, lo // 2), hi, rows)
        c = (0.5 * x + nprng.integers(0, max(2, (hi - lo) // 4), rows)).astype(np.int64)
        c = np.clip(c, 0, hi)
        cols = {"variant": variant, "x": x.tolist(), "y": y.tolist(), "c": c.tolist()}
        alt, ev, ut = CELLS[i % len(CELLS)]
        kw = dict(alternative=alt, equal_var=ev, use_t=ut)
        metrics = dict(mean=tt.Mean("x", **kw), mean_cov=tt.Mean("x", "c", **kw), ratio=tt.RatioOfMeans("x", "y", **kw))
        narrow = backends.make_inputs(cols, kinds, dtypes={"x": dt, "y": dt, "c": dt})
        wide = backends.make_inputs({k: ([float(v) for v in vs] if k != "variant" else vs) for k, vs in cols.items()},
                                    ("pyarrow",))["pyarrow"]
        try:
            ref = tt.Experiment(metrics).analyze(wide)
        except Exception as ex:  # noqa: BLE001
            chk.fail(f"{what}: analysis of float64 data raised", dict(dtype="float64", error=repr(ex)))
            continue
        for kind, data in narrow.items():
            chk.case(("narrow-int", dt, kind, alt, ev, ut))
            chk.branch("dtype:" + dt)
            inp = dict(dtype=dt, input=kind, rows=rows, value_range=[lo, hi], options=kw, seed=chk.seed, case=i)
            try:
                res = tt.Experiment(metrics).analyze(data)
            except Exception as ex:  # noqa: BLE001
                chk.fail(f"{what}: analysis raised on {dt} columns", dict(input=inp, error=repr(ex)))
                continue
            bad = None
            for m in metrics:
                for f in fields:
                    a, b = float(getattr(res[m], f)), float(getattr(ref[m], f))
                    if not (a == b or (math.isnan(a) and math.isnan(b)) or abs(a - b) <= 1e-7 * max(abs(a), abs(b)) + 1e-12):
                        bad = (m, f, a, b)
                        break
                if bad:
                    break
            if bad:
                chk.fail(f"{what}: the same values stored as {dt} give a different result than stored as float64 "
                         "(arithmetic in the column's own integer type wraps around)",
                         dict(input=inp, metric=bad[0], field=bad[1], got=bad[2], expected=bad[3]))
