"""State that must not exist: the same objects used again on CHANGED inputs.

Every result of tea-tasting is documented as a function of the data, the metric definitions and the options.  A
cache keyed on the identity of a mutable input, on a subset of the arguments or kept on an object between calls makes
a SECOND call wrong while every first call stays right.  The helpers here run such sequences on the real code and
compare each later call with what fresh objects compute from the current contents of the data (used by C02, C04,
C07, C11, C12, C14, C16, C17, C20: each reports a mismatch as a violation of its own clause).
"""
from __future__ import annotations

import math
import warnings


def _flat(res):
    """{metric: result} -> {(metric, field): value}"""
    out = {}
    for mname, mr in res.items():
        d = mr if isinstance(mr, dict) else mr._asdict()
        for f, v in d.items():
            out[(mname, f)] = v
    return out


def close(a, b, rel=1e-9):
    if a is None or b is None:
        return a is b
    if isinstance(a, str) or isinstance(b, str):
        return a == b
    a, b = float(a), float(b)
    if math.isnan(a) or math.isnan(b):
        return math.isnan(a) and math.isnan(b)
    if math.isinf(a) or math.isinf(b):
        return a == b
    return abs(a - b) <= rel * max(abs(a), abs(b), 1e-300)


def first_diff(got, want, rel=1e-9):
    for k in want:
        if k not in got:
            return k, None, want[k]
        if not close(got[k], want[k], rel):
            return k, got[k], want[k]
    for k in got:
        if k not in want:
            return k, got[k], None
    return None


def definitions(tt, seed=3, granular=True):
    ms = dict(m=tt.Mean("revenue", "revenue_covariate"), plain=tt.Mean("orders"),
              r=tt.RatioOfMeans("orders", "sessions", "orders_covariate", "sessions_covariate"), sr=tt.SampleRatio())
    if granular:
        ms["q"] = tt.Quantile("revenue", 0.7, n_resamples=20, random_state=seed)
    return ms


MUTATIONS = ("rescale", "drop-rows", "shift-variant", "overwrite-values")


def mutate(df, how, rng):
    """change the pandas DataFrame IN PLACE (same object)"""
    if how == "rescale":
        df["revenue"] = df["revenue"] * 128.0
        df["orders"] = df["orders"] * 4
    elif how == "drop-rows":
        idx = df.index[(df["user"] % 5 == int(rng.randint(0, 4)))]
        df.drop(index=idx, inplace=True)
    elif how == "shift-variant":
        df.loc[df["variant"] == 1, "revenue"] += 7.0
        df.loc[df["variant"] == 0, "sessions"] += 1
    else:
        df.loc[df["user"] % 3 == 0, "revenue"] = 0.0
        df.loc[df["user"] % 4 == 1, "orders_covariate"] = 2


def analyze_after_mutation(chk, n, what: str):
    """One Experiment object and one pandas DataFrame object: analyze, change the frame in place, analyze again.  The
    second result must be what fresh metric objects compute from a fresh PyArrow copy of the frame's current contents
    (and, for `rescale`, the first result transformed as the change of units prescribes)."""
    import pyarrow as pa
    import tea_tasting as tt
    rng = chk.rng
    for i in range(n):
        how = MUTATIONS[i % len(MUTATIONS)]
        seed = rng.randint(0, 10**6)
        df = tt.make_users_data(seed=seed, covariates=True, n_users=rng.choice([300, 800]), return_type="pandas")
        gran = i % 2 == 0
        exp = tt.Experiment(definitions(tt, 3, gran))
        inp = dict(sequence=f"e.analyze(df); {how} df in place; e.analyze(df)", data=f"make_users_data(seed={seed}, "
                   f"covariates=True, n_users={len(df)}) as pandas", metrics=list(exp.metrics), row_level_metric=gran)
        chk.case(("reuse-mutated-frame", how, gran))
        chk.branch("reuse:frame-" + how)
        try:
            with warnings.catch_warnings():
                warnings.simplefilter("ignore")
                r1 = exp.analyze(df)
                p1 = tt.Experiment(m=tt.Mean("revenue", "revenue_covariate", rel_effect_size=0.1)).solve_power(df, "power")
                mutate(df, how, rng)
                r2 = exp.analyze(df)
                fresh = tt.Experiment(definitions(tt, 3, gran)).analyze(pa.Table.from_pandas(df, preserve_index=False))
                alone = {k: m.analyze(df, 0, 1, "variant") for k, m in definitions(tt, 3, gran).items()}
        except Exception as ex:  # noqa: BLE001
            chk.fail(f"{what}: analysing a changed frame raised", dict(input=inp, error=repr(ex)))
            continue
        d = first_diff(_flat(r2), _flat(fresh))
        if d is None:
            d = first_diff(_flat(r2), _flat(alone))
        if d is not None:
            chk.fail(f"{what}: after the data frame was changed in place, a second analyze() of the same Experiment on "
                     "the same frame object does not give what the frame now holds (compared with fresh metric objects "
                     "on a fresh PyArrow copy, and with each metric analysed alone)",
                     dict(input=inp, metric=d[0][0], field=d[0][1], got=repr(d[1]), expected=repr(d[2]),
                          first_call=repr(_flat(r1).get(d[0]))))
        del p1


def metric_object_reuse(chk, n, what: str):
    """One metric object analysing different aggregates one after the other — same group sizes with different
    variances, different group sizes, then the first again — must give what a fresh object gives for each."""
    import tea_tasting as tt
    rng = chk.rng
    A = tt.aggr.Aggregates
    cells = [(a, ev, ut) for a in ("two-sided", "greater", "less") for ev in (False, True) for ut in (False, True)]
    for i in range(n):
        alt, ev, ut = cells[i % len(cells)]
        cl = rng.choice([0.8, 0.9, 0.95, 0.99])
        kw = dict(alternative=alt, equal_var=ev, use_t=ut, confidence_level=cl)
        with_cov = i % 3 == 0

        def mk():
            return tt.Mean("x", "c", **kw) if with_cov else tt.Mean("x", **kw)

        def aggr(n_, mean, var):
            vx = rng.uniform(0.5, 3)
            return A(n_, {"x": mean, "c": 1.0}, {"x": var, "c": vx}, {("c", "x"): 0.5 * math.sqrt(var * vx)})
        n0, n1 = rng.randint(5, 40), rng.randint(5, 40)
        seq = [(aggr(n0, 3.0, 1.0), aggr(n1, 3.4, 2.0)),
               (aggr(n0, 3.0, 40.0), aggr(n1, 3.4, 0.05)),          # same sizes, very different variances (Welch df)
               (aggr(n0, -2.0, 0.01), aggr(n1, 5.0, 900.0)),
               (aggr(n0 * 50, 3.0, 1.0), aggr(n1 * 7, 3.1, 2.0))]
        seq.append(seq[0])
        if with_cov:
            # ... and data whose covariate is CONSTANT (variance and covariance exactly 0): the unadjusted result, whatever
            # coefficient or centre an earlier analysis by the same object used
            seq.append((A(n0, {"x": 3.0, "c": 2.0}, {"x": 1.5, "c": 0.0}, {("c", "x"): 0.0}),
                        A(n1, {"x": 3.3, "c": 2.0}, {"x": 2.5, "c": 0.0}, {("c", "x"): 0.0})))
        m = mk()
        inp = dict(options=kw, covariate=with_cov, sizes=[n0, n1], sequence="one metric object analysing 5-6 different pairs "
                   "of aggregates in a row; each compared with a fresh metric object")
        chk.case(("reuse-metric-object", alt, ev, ut, with_cov))
        chk.branch("reuse:metric-object")
        for k, (c, t) in enumerate(seq):
            try:
                got = m.analyze({0: c, 1: t}, 0, 1)._asdict()
                want = mk().analyze({0: c, 1: t}, 0, 1)._asdict()
            except Exception as ex:  # noqa: BLE001
                chk.fail(f"{what}: analysis of aggregates raised", dict(input=inp, step=k, error=repr(ex)))
                break
            d = first_diff({("", f): v for f, v in got.items()}, {("", f): v for f, v in want.items()}, rel=1e-12)
            if d is not None:
                chk.fail(f"{what}: a metric object that analysed other data before gives a different result than a fresh "
                         "object with the same options on the same aggregates (state kept between calls)",
                         dict(input=inp, step=k, field=d[0][1], got=repr(d[1]), expected=repr(d[2]),
                              control=repr(c), treatment=repr(t)))
                break


def read_after_mutation(chk, n, what: str):
    """tt.aggr.read_aggregates on ONE frame object: read, change the frame in place, read again — the second answer
    must be the statistics of what the frame now holds"""
    import numpy as np
    import pandas as pd
    import polars as pl
    import tea_tasting as tt
    rng = chk.rng
    for i in range(n):
        nprng = np.random.default_rng(rng.randint(0, 2**31))
        rows = rng.choice([40, 200])
        variant = [int(v) for v in nprng.integers(0, 2, rows)]
        variant[:4] = [0, 0, 1, 1]
        x = nprng.normal(5, 2, rows)
        y = nprng.normal(1, 1, rows)
        kind = ("pandas", "polars")[i % 2]
        frame = pd.DataFrame({"variant": variant, "x": x, "y": y}) if kind == "pandas" else \
            pl.DataFrame({"variant": variant, "x": x, "y": y})
        spec = dict(has_count=True, mean_cols=("x", "y"), var_cols=("x",), cov_cols=(("x", "y"),))
        chk.case(("read-after-mutation", kind, rows))
        chk.branch("reuse:read_aggregates-" + kind)
        try:
            first = tt.aggr.read_aggregates(frame, "variant", **spec)
            if kind == "pandas":
                frame["x"] = frame["x"].clip(upper=5.0) * 3.0
                frame.loc[frame["variant"] == 1, "y"] += 2.0
                cur = {c: frame[c].to_numpy() for c in ("variant", "x", "y")}
            else:
                frame.extend(pl.DataFrame({"variant": [0, 1, 1], "x": [50.0, -20.0, 7.0], "y": [0.0, 3.0, 9.0]}))
                cur = {c: frame[c].to_numpy() for c in ("variant", "x", "y")}
            second = tt.aggr.read_aggregates(frame, "variant", **spec)
        except Exception as ex:  # noqa: BLE001
            chk.fail(f"{what}: read_aggregates raised", dict(input=kind, error=repr(ex)))
            continue
        for g in (0, 1):
            sel = cur["variant"] == g
            want = dict(count=int(sel.sum()), mean_x=float(cur["x"][sel].mean()), var_x=float(cur["x"][sel].var(ddof=1)),
                        cov_xy=float(np.cov(cur["x"][sel], cur["y"][sel], ddof=1)[0, 1]))
            a = second[g]
            got = dict(count=a.count(), mean_x=float(a.mean("x")), var_x=float(a.var("x")), cov_xy=float(a.cov("x", "y")))
            bad = [k for k in want if not close(got[k], want[k], 1e-9)]
            if bad:
                chk.fail(f"{what}: after the frame was changed in place, reading the same frame object again returns "
                         "statistics that are not those of its current rows",
                         dict(input=kind, variant=g, statistic=bad[0], got=got[bad[0]], expected=want[bad[0]],
                              first_read=float(first[g].mean("x")), rows=rows))
                break


def aggregates_object_reuse(chk, n, what: str):
    """A dict of Aggregates objects is analysed, the caller then UPDATES the objects (their public count_ / mean_ / var_ /
    cov_ attributes) and analyses again; and new Aggregates are built from values read back from analysed ones.  Each
    analysis must be the one of the statistics the objects hold at that moment."""
    import tea_tasting as tt
    rng = chk.rng
    A = tt.aggr.Aggregates
    for i in range(n):
        alt = ("two-sided", "greater", "less")[i % 3]
        kw = dict(alternative=alt, equal_var=bool(i & 1), use_t=bool(i & 2))

        def stats(shift):
            mx, my = rng.uniform(1, 5) + shift, rng.uniform(1, 3)
            vx, vy = rng.uniform(0.5, 4), rng.uniform(0.2, 2)
            return rng.randint(5, 200), {"x": mx, "y": my}, {"x": vx, "y": vy}, {("x", "y"): 0.3 * math.sqrt(vx * vy)}
        s0, s1, t0, t1 = stats(0), stats(0.5), stats(3), stats(-2)
        metrics = dict(mean=tt.Mean("x", **kw), ratio=tt.RatioOfMeans("x", "y", **kw))
        objs = {0: A(s0[0], dict(s0[1]), dict(s0[2]), dict(s0[3])), 1: A(s1[0], dict(s1[1]), dict(s1[2]), dict(s1[3]))}
        chk.case(("reuse-aggregates", alt, kw["equal_var"], kw["use_t"]))
        chk.branch("reuse:aggregates-objects")
        try:
            first = {k: m.analyze(objs, 0, 1)._asdict() for k, m in metrics.items()}
            # the caller updates the SAME objects in place
            for g, st_ in ((0, t0), (1, t1)):
                objs[g].count_ = st_[0]
                objs[g].mean_.update(st_[1])
                objs[g].var_.update(st_[2])
                objs[g].cov_.update(st_[3])
            second = {k: m.analyze(objs, 0, 1)._asdict() for k, m in metrics.items()}
            fresh_objs = {0: A(t0[0], dict(t0[1]), dict(t0[2]), dict(t0[3])), 1: A(t1[0], dict(t1[1]), dict(t1[2]), dict(t1[3]))}
            want = {k: type(m)(*(("x",) if k == "mean" else ("x", "y")), **kw).analyze(fresh_objs, 0, 1)._asdict()
                    for k, m in metrics.items()}
            # new objects built from values read back from analysed ones (count(), mean(), ...)
            rebuilt = {g: A(objs[g].count(), {c: objs[g].mean(c) for c in ("x", "y")}, {c: objs[g].var(c) for c in ("x", "y")},
                            {("x", "y"): objs[g].cov("x", "y")}) for g in (0, 1)}
            third = {k: m.analyze(rebuilt, 0, 1)._asdict() for k, m in metrics.items()}
        except Exception as ex:  # noqa: BLE001
            chk.fail(f"{what}: analysis of a dict of Aggregates raised", dict(options=kw, error=repr(ex)))
            continue
        for label, got in (("after the caller updated the Aggregates objects in place", second),
                           ("for Aggregates rebuilt from values read back from analysed objects", third)):
            d = first_diff({(k, f): v for k, r in got.items() for f, v in r.items()},
                           {(k, f): v for k, r in want.items() for f, v in r.items()}, rel=1e-12)
            if d is not None:
                chk.fail(f"{what}: {label} the result is not the analysis of the statistics they hold",
                         dict(options=kw, metric=d[0][0], field=d[0][1], got=repr(d[1]), expected=repr(d[2]),
                              first_analysis=repr(first[d[0][0]][d[0][1]])))
                break
