"""Confirm a seeded change and run the checks against it (never touches /repo's working tree).

usage: seedtest.py <seed dir with patch.diff, demo.py, meta.json> [<check id> ...]

1. fresh scratch worktree of /repo HEAD under /tmp, `git apply patch.diff`;
2. the pinned test suite on the patched tree must still pass (151);
3. demo.py must exit 1 on the patched tree and 0 on the unpatched tree;
4. `./check <id>` (quick) with VERIF_REPO pointing at the patched tree; reports exit code and VIOLATION lines;
5. removes the worktree.  Prints one JSON object.
"""
from __future__ import annotations

import json
import os
import re
import subprocess
import sys
import tempfile
from pathlib import Path

VERIF = Path(__file__).resolve().parent.parent


def run(cmd, **kw):
    return subprocess.run(cmd, shell=True, capture_output=True, text=True, **kw)


def main():
    seed = Path(sys.argv[1]).resolve()
    meta = json.loads((seed / "meta.json").read_text())
    ids = sys.argv[2:] or [meta["property"]]
    wt = tempfile.mkdtemp(prefix="seedwt_", dir="/tmp")
    os.rmdir(wt)
    out = {"seed": str(seed), "property": meta.get("property"), "summary": meta.get("summary")}
    try:
        for attempt in range(8):      # several seedtests may add worktrees at once: git's own lock can be busy
            r = run(f"git -C /repo worktree add --detach {wt} HEAD -q")
            if r.returncode == 0:
                break
            import time
            time.sleep(0.5 + attempt)
        env0 = f"PYTHONPATH={wt}/src"
        d0 = run(f"cd {wt} && {env0} /venv/bin/python {seed}/demo.py", timeout=900)
        out["demo_unpatched"] = d0.returncode
        a = run(f"git -C {wt} apply {seed}/patch.diff")
        out["applies"] = a.returncode == 0
        if a.returncode != 0:
            out["apply_error"] = a.stderr[-300:]
            return out
        t = run(f"cd {wt} && {env0} /venv/bin/python -m pytest -q -p no:cacheprovider --timeout=900 2>&1 | tail -1", timeout=1800)
        out["tests"] = t.stdout.strip()
        out["tests_pass"] = bool(re.search(r"\b151 passed\b", t.stdout)) and "failed" not in t.stdout
        d1 = run(f"cd {wt} && {env0} /venv/bin/python {seed}/demo.py", timeout=900)
        out["demo_patched"] = d1.returncode
        out["demo_tail"] = (d1.stdout + d1.stderr)[-400:]
        out["checks"] = {}
        for cid in ids:
            for seed_no in (0,):
                c = run(f"cd {VERIF} && VERIF_REPO={wt} VERIF_SEED={seed_no} ./check {cid}", timeout=3600)
                lines = [x for x in c.stdout.splitlines() if x.startswith(("VIOLATION", "KNOWN-FINDING")) or "->" in x]
                out["checks"][cid] = {"exit": c.returncode, "lines": lines[-4:]}
                rp = Path(os.environ.get("VERIF_OUT") or (VERIF / "replays")) / f"{cid}-quick-seed{seed_no}.json"
                if c.returncode == 1 and rp.exists():
                    try:
                        rj = json.loads(rp.read_text())
                        out["checks"][cid]["kind"] = rj.get("kind")
                        f = (rj.get("failing") or [{}])[0]
                        out["checks"][cid]["first"] = (f.get("what") or (rj.get("broken") or [""])[0])[:200]
                    except Exception:  # noqa: BLE001
                        pass
        return out
    finally:
        run(f"git -C /repo worktree remove --force {wt}")
        print(json.dumps(out, indent=1))


if __name__ == "__main__":
    main()
